import EupsModel.Model.Setup
import EupsModel.Model.ShellEmit
/-! `eups.app.setup` end to end (round 3): `Model/Setup` (what `Eups.setup` computes) composed with `Model/ShellEmit` (how
`app.setup` writes a command): the typed commands of `Setup.delta` are flattened to the strings the real environment
holds — `SETUP_<P>` = `name version -f flavor -Z root` (blanks of the root encoded `-+-`), `<P>_DIR`, path variables joined
with their delimiter — and rendered by C05's `render` (`export K=V` with the emitter's quoting rule, `unset K`,
`f() { … ; }`, `unset -f f`).  The harness compares the resulting list of command strings with the list the real
`eups.app.setup` returned. -/
namespace EupsModel.SetupEmit
open EupsModel.Setup

structure Layout where
  /-- stack index ↦ the stack's root directory -/
  roots : List Str
  /-- path variable ↦ delimiter (default `:`) -/
  delims : List (Str × Str)
  /-- placeholders in the strings of the model (`$S`, `$T`) ↦ the real directory -/
  subst : List (Str × Str)
  flavor : Str
  /-- products declared under another flavor (`-f generic`, found through the fallback flavors): name ↦ flavor -/
  flavors : List (Name × Str) := []

/-- `str.upper()` on ASCII -/
def upper (s : Str) : Str := s.map fun c => if 97 ≤ c ∧ c ≤ 122 then c - 32 else c

/-- `s.replace(pat, rep)` -/
def replaceAll (pat rep : Str) : Nat → Str → Str
  | 0, s => s
  | _, [] => []
  | fuel + 1, c :: r =>
    if !pat.isEmpty && pat.isPrefixOf (c :: r) then rep ++ replaceAll pat rep fuel ((c :: r).drop pat.length)
    else c :: replaceAll pat rep fuel r

def Layout.real (L : Layout) (s : Str) : Str := L.subst.foldl (fun s pr => replaceAll pr.1 pr.2 (s.length + 1) s) s

/-- `utils.encodePath` -/
def encodePath (s : Str) : Str := replaceAll [32] [45, 43, 45] (s.length + 1) s

def elemStr (db : Db) : Elem → Str
  | .own p rel => (match db.lookup p with
    | some d => d.dir
    | none => [60, 117, 110, 100, 101, 99, 108, 97, 114, 101, 100, 62]) ++ rel       -- "<undeclared>"
  | .foreign s => s

def joinWith (d : Str) : List Str → Str
  | [] => []
  | [x] => x
  | x :: r => x ++ d ++ joinWith d r

def sDIR : Str := [95, 68, 73, 82]                 -- _DIR
def sF : Str := [32, 45, 102, 32]                  -- " -f "
def sZ : Str := [32, 45, 90, 32]                   -- " -Z "

/-- `"%s %s -f %s -Z %s" % (name, version, flavor, encodePath(stackRoot))` -/
def recValue (L : Layout) (n : Name) (v : Ver) : Str :=
  n ++ [32] ++ v.1 ++ sF ++ (aget L.flavors n).getD L.flavor ++ sZ ++ encodePath (L.roots.getD v.2 [])

def toShell (db : Db) (L : Layout) : Setup.Cmd → Option ShellEmit.Cmd
  | .exportRec n v => some (.setVar (ShellEmit.sSETUP_ ++ upper n) (recValue L n v))
  | .exportDir n x => some (.setVar (upper n ++ sDIR) (L.real (elemStr db x)))
  | .exportPath var l =>
    some (.setVar var (joinWith ((aget L.delims var).getD [58]) (l.map fun x => L.real (elemStr db x))))
  | .exportVar var x => some (.setVar var (L.real (elemStr db x)))
  | .unsetRec n => some (.unsetVar (ShellEmit.sSETUP_ ++ upper n))
  | .unsetDir n => some (.unsetVar (upper n ++ sDIR))
  | .unsetPath var => some (.unsetVar var)
  | .unsetVar var => some (.unsetVar var)
  | .aliasDef k v => some (.aliasDef k v)
  | .aliasUnset k => some (.aliasDel k)
  | .false_ => none

/-- the command strings of `eups.app.setup` for an `sh` caller (`none`: a command outside the rendering model) -/
def emitSh (db : Db) (L : Layout) : Emitted → Option (List Str)
  | .cmds l =>
    if l == [Setup.Cmd.false_] then some [ShellEmit.sFalse]
    else l.mapM fun c => (toShell db L c).bind (ShellEmit.render {})
  | .raised => none
  | .fuel => none

end EupsModel.SetupEmit
