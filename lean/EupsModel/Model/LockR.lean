import EupsModel.Model.Lock
/-! C09 — small-step model of the REPAIRED `eups.lock.takeLocks` / `giveLocks` on one lock directory
(the tree with our `fix:` commits for D12a/D12b/D12c/D12f; the protocol of the pinned tree stays in
`Model/Lock.lean`, with the three race witnesses).

One transition = one file-system call of one process, in the order `python/eups/lock.py` issues them:

```
takeLocks:  mkdir ─ok─────────────────────────────────────────────┐
              │EEXIST                                             │
              ├ exclusive: scan "*" ─ the one locker is $EUPS_LOCK_PID ─┤
              │              └ else scan "*" (message) ─ last try: RuntimeError | retry: mkdir
              └ shared ───────────────────────────────────────────┤
                                                                  ▼
            create (O_EXCL|O_CREAT) ─ENOENT (a releaser removed the empty directory)─ last try: raise | retry: mkdir
              │ok / EEXIST
              ▼
            look: scan "*" (exclusive request) / "exclusive*" (shared request), own pid and $EUPS_LOCK_PID left out
              ├ nobody else ─▶ return [(dir, file)]
              └ somebody: scan again (message); withdraw = giveLocks([that lock]);
                          exclusive and tries left: mkdir again | else RuntimeError
body        (the command runs)
giveLocks:  isdir(lockDir) ─False▶ return ;  exists(file) [─True▶ remove(file)] ; rmdir(lockDir), refusal ignored
```

What changed against the pinned protocol: the lock file is created BEFORE the requester looks for incompatible
lockers (and withdrawn when there is one); `rmdir` itself decides whether the directory is empty (no count before
it) and its refusal is not an error; a directory that vanished between `mkdir` and `create` makes the requester
start again instead of running unlocked.  Kinds, pids, errors are those of `Model/Lock.lean`. -/
namespace EupsModel.LockR
open EupsModel.Lock (Pid Kind Err upd exFiles parentHolds)

/-- what a `giveLocks` call is part of: the release after the command body, or the withdrawal of a refused
request (then: another attempt, or the refusal is raised) -/
inductive After
  | fin                  -- release: giveLocks returns, the command is done
  | retry (left : Nat)   -- withdrawal of an exclusive request with `left + 1` attempts left: sleep, mkdir again
  | refuse               -- withdrawal of a shared request, or of the last attempt: RuntimeError
  | die                  -- release by the signal handler (SIGINT / SIGTERM in the command body): then the process dies
  deriving DecidableEq, Repr, Hashable

/-- program counter = the next file-system call of the process -/
inductive PC
  | mkdir (left : Nat)       -- os.mkdir(lockDir); `left` further attempts remain after this one
  | scanAll (left : Nat)     -- exclusive request, mkdir refused: listLockers(lockDir, getPids=True)
  | scanMsg (left : Nat)     -- not the parent's lock: listLockers(lockDir) for the message; raise or retry
  | create (left : Nat)      -- os.open(lockFile, O_EXCL|O_RDWR|O_CREAT)
  | look (left : Nat)        -- listLockers(lockDir, "*" | "exclusive*", getPids=True, exclude=(me, $EUPS_LOCK_PID))
  | lookMsg (left : Nat)     -- somebody else is there: the same listing for the message
  | hold                     -- takeLocks returned the lock; the command body runs
  | isdir (a : After)        -- giveLocks: os.path.isdir(lockDir)
  | rexists (a : After)      -- os.path.exists(lockFile)
  | remove (a : After)       -- os.remove(lockFile)
  | rmdir (a : After)        -- os.rmdir(lockDir), OSError ignored
  | done                     -- giveLocks returned
  | failedAcq (e : Err)      -- takeLocks raised
  | failedRel (e : Err)      -- giveLocks raised
  | killed                   -- the signal handler has given the locks up and the process has died of the signal
  deriving DecidableEq, Repr, Hashable

structure St where
  dir   : Bool                     -- the lock directory exists
  files : List (Kind × Pid)        -- lock files in it, newest first (the order listings are returned in)
  kind  : Pid → Kind
  lp    : Pid → Option Pid         -- $EUPS_LOCK_PID at start
  pc    : Pid → PC

def upd (f : Pid → PC) (i : Pid) (v : PC) : Pid → PC := fun j => if j = i then v else f j

@[simp] theorem upd_same (f : Pid → PC) (i : Pid) (v : PC) : upd f i v i = v := by simp [upd]
@[simp] theorem upd_other (f : Pid → PC) (i j : Pid) (v : PC) (h : j ≠ i) : upd f i v j = f j := by
  simp [upd, h]

def setPC (s : St) (i : Pid) (v : PC) : St := { s with pc := upd s.pc i v }

/-- where a `giveLocks` call leads when it returns -/
def afterPC : After → PC
  | .fin => .done
  | .retry n => .mkdir n
  | .refuse => .failedAcq .runtime
  | .die => .killed

/-- the listing the requester looks at: "*" for an exclusive request, "exclusive*" for a shared one -/
def lookList (k : Kind) (fs : List (Kind × Pid)) : List (Kind × Pid) :=
  match k with
  | .ex => fs
  | .sh => exFiles fs

/-- `listLockers(..., exclude=(own pid, $EUPS_LOCK_PID))`: the lockers that are neither the requester nor the
process it inherited `EUPS_LOCK_PID` from -/
def others (i : Pid) (lp : Option Pid) (l : List (Kind × Pid)) : List (Kind × Pid) :=
  l.filter fun f => !(f.2 == i) && !(lp == some f.2)

/-- One file-system call of process `i`. -/
def step (s : St) (i : Pid) : St :=
  match s.pc i with
  | .mkdir left =>
    if s.dir then
      match s.kind i with
      | .ex => setPC s i (.scanAll left)
      | .sh => setPC s i (.create left)
    else { s with dir := true, pc := upd s.pc i (.create left) }
  | .scanAll left =>
    if parentHolds (s.lp i) s.files then setPC s i (.create left) else setPC s i (.scanMsg left)
  | .scanMsg left =>
    match left with
    | 0 => setPC s i (.failedAcq .runtime)
    | n + 1 => setPC s i (.mkdir n)
  | .create left =>
    if s.dir then
      if s.files.contains (s.kind i, i) then setPC s i (.look left)            -- EEXIST is ignored
      else { s with files := (s.kind i, i) :: s.files, pc := upd s.pc i (.look left) }
    else
      match left with
      | 0 => setPC s i (.failedAcq .enoent)
      | n + 1 => setPC s i (.mkdir n)
  | .look left =>
    if (others i (s.lp i) (lookList (s.kind i) s.files)).isEmpty then setPC s i .hold
    else setPC s i (.lookMsg left)
  | .lookMsg left =>
    match s.kind i, left with
    | .ex, n + 1 => setPC s i (.isdir (.retry n))
    | _, _ => setPC s i (.isdir .refuse)
  | .hold => setPC s i (.isdir .fin)                                   -- the command body ends
  | .isdir a => if s.dir then setPC s i (.rexists a) else setPC s i (afterPC a)
  | .rexists a => if s.files.contains (s.kind i, i) then setPC s i (.remove a) else setPC s i (.rmdir a)
  | .remove a =>
    if s.files.contains (s.kind i, i) then
      { s with files := s.files.filter (· != (s.kind i, i)), pc := upd s.pc i (.rmdir a) }
    else setPC s i (.failedRel .enoent)
  | .rmdir a =>
    if s.dir && s.files.isEmpty then { s with dir := false, pc := upd s.pc i (afterPC a) }
    else setPC s i (afterPC a)                                          -- ENOTEMPTY / ENOENT: ignored
  | .done => s
  | .failedAcq _ => s
  | .failedRel _ => s
  | .killed => s

def run (s : St) (sched : List Pid) : St := sched.foldl step s

/-- Nothing exists yet; every process is about to call `os.mkdir`; `tries i = ntry - 1`. -/
def init (kind : Pid → Kind) (lp : Pid → Option Pid) (tries : Pid → Nat) : St :=
  { dir := false, files := [], kind := kind, lp := lp, pc := fun i => .mkdir (tries i) }

@[simp] theorem run_nil (s : St) : run s [] = s := rfl
@[simp] theorem run_cons (s : St) (i : Pid) (r : List Pid) : run s (i :: r) = run (step s i) r := rfl
theorem run_append (s : St) (a b : List Pid) : run s (a ++ b) = run (run s a) b := by
  simp [run, List.foldl_append]

/-! ### Signals

`takeLocks` installs a handler for SIGINT and SIGTERM when it returns: the handler gives the locks up
(`giveLocks(locks)`) and — with our repair — lets the process die of the signal (the pinned handler returned, and the
command carried on without its locks: `C09_signal_handler_witness_Pinned`).  Modelled: a signal delivered while the
command body runs.  Not modelled: signals during `takeLocks` (no handler yet: SIGINT unwinds through `takeLocks`,
which gives up what it has taken; SIGTERM kills the process where it stands) and during `giveLocks`. -/

/-- SIGINT / SIGTERM delivered to process `i`: in its command body the handler starts the release, after which the
process dies; about to call `mkdir` (nothing of its in this lock directory) it just dies; elsewhere not modelled (no
effect) -/
def interrupt (s : St) (i : Pid) : St :=
  match s.pc i with
  | .hold => setPC s i (.isdir .die)
  | .isdir .fin => setPC s i (.isdir .die)     -- `giveLocks` is about to start on the lock: the handler's pass takes over
  | .mkdir _ => setPC s i .killed
  | _ => s

/-- an event of a schedule: the next file-system call of a process, or a signal delivered to it -/
inductive Ev
  | call (i : Pid)
  | intr (i : Pid)
  deriving DecidableEq, Repr

def stepE (s : St) : Ev → St
  | .call i => step s i
  | .intr i => interrupt s i

def runE (s : St) (evs : List Ev) : St := evs.foldl stepE s

@[simp] theorem runE_nil (s : St) : runE s [] = s := rfl
@[simp] theorem runE_cons (s : St) (e : Ev) (r : List Ev) : runE s (e :: r) = runE (stepE s e) r := rfl

/-! ### Stale locks and `eups admin clearLocks`

A process that is killed outright (SIGKILL, power cut; SIGTERM during `takeLocks`) releases nothing: its lock file
stays, with an owner that makes no further call.  The protocol cannot tell it from a live holder — every incompatible
request is refused — until the administrator runs `eups admin clearLocks` (`lock.clearLocks`: `shutil.rmtree` of the
lock directory), which is outside the protocol: it removes the files of live holders just the same. -/

/-- the initial state with lock files left behind by killed processes (`ghosts`: their kinds and pids; such a process
is `killed` from the start: scheduling it does nothing) -/
def initStale (kind : Pid → Kind) (lp : Pid → Option Pid) (tries : Pid → Nat) (ghosts : List (Kind × Pid)) : St :=
  { dir := !ghosts.isEmpty, files := ghosts, kind := kind, lp := lp,
    pc := fun i => if ghosts.any (fun g => g.2 == i) then .killed else .mkdir (tries i) }

/-- `lock.clearLocks`: the lock directory is removed with everything in it -/
def clearLocks (s : St) : St := { s with dir := false, files := [] }

/-- SIGKILL (or a power cut) at any point: the process stops where it stands; whatever it had put into the lock
directory stays there (a stale lock from then on) -/
def crash (s : St) (i : Pid) : St := setPC s i .killed

/-- events of a schedule with signals and kills -/
inductive KEv
  | call (i : Pid)
  | intr (i : Pid)     -- SIGINT / SIGTERM (handled in the command body)
  | kill (i : Pid)     -- SIGKILL
  deriving DecidableEq, Repr

def stepK (s : St) : KEv → St
  | .call i => step s i
  | .intr i => interrupt s i
  | .kill i => crash s i

def runK (s : St) (evs : List KEv) : St := evs.foldl stepK s

@[simp] theorem runK_nil (s : St) : runK s [] = s := rfl
@[simp] theorem runK_cons (s : St) (e : KEv) (r : List KEv) : runK s (e :: r) = runK (stepK s e) r := rfl

/-! ### What a step looks like from outside (compared with the real calls by the correspondence) -/

inductive Call
  | mkdir | scanAll | scanEx | create | work | isdir | existsFile | remove | rmdir
  | none                      -- the process has terminated: scheduling it does nothing
  deriving DecidableEq, Repr

inductive Res
  | ok | eexist | enoent | enotempty | yes | no
  | listing (l : List (Kind × Pid))
  | nothing
  deriving DecidableEq, Repr

def lookCall : Kind → Call
  | .ex => .scanAll
  | .sh => .scanEx

/-- The call process `i` is about to make in `s` and how the file system answers it. -/
def obs (s : St) (i : Pid) : Call × Res :=
  let k := s.kind i
  match s.pc i with
  | .mkdir _ => (.mkdir, if s.dir then .eexist else .ok)
  | .scanAll _ => (.scanAll, .listing s.files)
  | .scanMsg _ => (.scanAll, .listing s.files)
  | .create _ => (.create, if s.dir then (if s.files.contains (k, i) then .eexist else .ok) else .enoent)
  | .look _ => (lookCall k, .listing (lookList k s.files))
  | .lookMsg _ => (lookCall k, .listing (lookList k s.files))
  | .hold => (.work, .ok)
  | .isdir _ => (.isdir, if s.dir then .yes else .no)
  | .rexists _ => (.existsFile, if s.files.contains (k, i) then .yes else .no)
  | .remove _ => (.remove, if s.files.contains (k, i) then .ok else .enoent)
  | .rmdir _ => (.rmdir, if s.dir then (if s.files.isEmpty then .ok else .enotempty) else .enoent)
  | .done => (.none, .nothing)
  | .failedAcq _ => (.none, .nothing)
  | .failedRel _ => (.none, .nothing)
  | .killed => (.none, .nothing)

/-! ### The property -/

/-- `i` and `j` are related: one of them started with the other's pid in `EUPS_LOCK_PID`. -/
def related (s : St) (i j : Pid) : Prop := s.lp i = some j ∨ s.lp j = some i

instance (s : St) (i j : Pid) : Decidable (related s i j) := by unfold related; infer_instance

/-- the command body is running (between the return of `takeLocks` and the call of `giveLocks`); the repaired
`takeLocks` never returns without the lock on a directory it can write to -/
def inBody : PC → Bool
  | .hold => true
  | _ => false

/-- First sentence of C09 at one instant: while an exclusive lock is held, no unrelated process is in its
command body. -/
def Mutex (s : St) : Prop :=
  ∀ i j, i ≠ j → ¬ related s i j → s.pc i = .hold → s.kind i = .ex → inBody (s.pc j) = false

/-- owns a share of the lock directory: about to put its file there, or not yet through with taking it out -/
def engaged : PC → Bool
  | .create _ | .look _ | .lookMsg _ | .hold | .isdir _ | .rexists _ | .remove _ | .rmdir _ => true
  | _ => false

/-- the process's lock file is in the directory -/
def hasFile : PC → Bool
  | .look _ | .lookMsg _ | .hold | .isdir _ | .rexists _ | .remove _ => true
  | _ => false

end EupsModel.LockR
