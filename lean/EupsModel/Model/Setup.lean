import EupsModel.Model.Str
import EupsModel.Model.PathAlg
/-! Model of `Eups.setup` / `Eups.findProductFromVRO` / `Eups.selectVRO` (python/eups/Eups.py) and of
`Action.execute`, `execute_setupRequired`, `execute_envPrepend`, `execute_envSet`, `execute_addAlias`
(python/eups/table.py) over a single-stack, single-flavor database.  Shared by C01, C02 and C04.

* One function `setup` with a `fwd` flag, structurally recursive on fuel; the table interpreter `acts`
  takes the recursive call as a *parameter*; out-of-fuel is a distinct result that propagates.
* Environment: records `SETUP_<P>`, `<P>_DIR`, path variables as lists of tagged elements
  (`own (name, version) rel` = the string `dir(name,version) ++ rel`, `foreign s` = any other string),
  `envSet` variables, aliases.  The string level of path variables (split/join, delimiters) is C12's.
* Resolution (`find`, DESIGN Appendix A) lives behind `resolve`; the no-residue proof uses of it only that
  the product returned is a declaration of the requested name. -/
namespace EupsModel.Setup

/-! ## association lists (first binding wins; `aset` keeps one binding per key) -/
section AList
variable {κ β : Type} [DecidableEq κ]

def aget (l : List (κ × β)) (k : κ) : Option β :=
  match l with
  | [] => none
  | (k', v) :: rest => if k' = k then some v else aget rest k

def aunset (l : List (κ × β)) (k : κ) : List (κ × β) := l.filter (fun p => p.1 ≠ k)

def aset (l : List (κ × β)) (k : κ) (v : β) : List (κ × β) := (k, v) :: aunset l k

end AList

/-! ## data -/

abbrev Name := Str
/-- a version name as written in tables and on the command line -/
abbrev VStr := Str
/-- the identity of a declared version: its name and the stack (index into the list of stacks) that declares it —
what a `SETUP_<P>` record holds (`name version -f flavor -Z stack`) -/
abbrev Ver := VStr × Nat
abbrev Prod := Name × Ver

/-- an element of a path variable / the value of a variable -/
inductive Elem where
  | own (p : Prod) (rel : Str)     -- `dir(p) ++ rel`
  | foreign (s : Str)
deriving DecidableEq, Repr

/-- a value as written in a table: `${PRODUCT_DIR}rel` or a literal -/
inductive Val where
  | own (rel : Str)
  | lit (s : Str)
deriving DecidableEq, Repr

def Val.elem (p : Prod) : Val → Elem
  | .own rel => .own p rel
  | .lit s => .foreign s

inductive RelOp where | lt | le | eq | ge | gt
deriving DecidableEq, Repr

/-- `op v || op v || …` -/
abbrev VExpr := List (RelOp × VStr)

/-- what a request names: an explicit version or a relational expression -/
inductive VerReq where
  | explicit (v : VStr)
  | expr (e : VExpr)
deriving DecidableEq, Repr

/-- `prepend`: `envPrepend` / `envAppend` (`append`) of a value that holds one or several delimiter-separated pieces
(`${PRODUCT_DIR}/bin:${PRODUCT_DIR}/scripts`); `dep`: `setupRequired` / `setupOptional` with `-j`, a version, `[expr]`
the line's own `-t` tags and its own `-k` -/
inductive Act where
  | prepend (var : Str) (vals : List Val) (append : Bool)
  | set (var : Str) (val : Val)
  | alias (key : Str) (val : Str)
  | dep (name : Name) (optional : Bool) (just : Bool) (ver : Option VerReq) (vexpr : Option VExpr) (tags : List Str)
      (keepLine : Bool)
deriving DecidableEq, Repr

/-- `if (type == exact) { … } else { … }` around an action; `isType t` / `notType t`: `if (type == t) { … } else { … }` for
another setup type (`setup --type build`), resolved against the command's `--type` list by `Db.withTypes` before the
request runs (unresolved they read as under an empty `--type` list) -/
inductive Guard where | always | exact | inexact | isType (t : Str) | notType (t : Str)
deriving DecidableEq, Repr

def Guard.holds (exact : Bool) : Guard → Bool
  | .always => true
  | .exact => exact
  | .inexact => !exact
  | .isType _ => false
  | .notType _ => true

/-- a declared product (`Product`): name, version, directory, table -/
structure Decl where
  name : Name
  ver : Ver
  dir : Str
  table : List (Guard × Act)
deriving DecidableEq, Repr

def Decl.prod (d : Decl) : Prod := (d.name, d.ver)

/-- `Table.actions(flavor, setupType)` -/
def Decl.actions (d : Decl) (exact : Bool) : List Act :=
  (d.table.filter (fun ga => ga.1.holds exact)).map (·.2)

structure Db where
  decls : List Decl
  tags : List (Str × Name × Ver)        -- (tag, product, version): the chain files
deriving Repr

/-- `Eups(setupType=types)`: the tables as `Table.actions(flavor, setupType)` reads them for the setup types given with
`--type` (other than `exact`, which the VRO decides: `Guard.exact`) -/
def Guard.resolve (types : List Str) : Guard → Guard
  | .isType t => if t ∈ types then .always else .isType t
  | .notType t => if t ∈ types then .isType t else .always
  | g => g

def Decl.withTypes (types : List Str) (d : Decl) : Decl :=
  { d with table := d.table.map fun ga => (ga.1.resolve types, ga.2) }

def Db.withTypes (db : Db) (types : List Str) : Db := { db with decls := db.decls.map (Decl.withTypes types) }

def Db.lookup (db : Db) (p : Prod) : Option Decl :=
  db.decls.find? (fun d => d.name = p.1 ∧ d.ver = p.2)

/-- the first stack on the path (`EUPS_PATH` order) that declares the version -/
def Db.findVer (db : Db) (path : List Nat) (n : Name) (v : VStr) : Option Decl :=
  path.findSome? (fun k => db.lookup (n, (v, k)))

/-- the version names of a product in the stacks of the path, in path order -/
def Db.versionsOn (db : Db) (path : List Nat) (n : Name) : List VStr :=
  path.flatMap (fun k => (db.decls.filter (fun d => d.name = n ∧ d.ver.2 = k)).map (·.ver.1))

/-- the first stack on the path whose chain file for the tag names a version that is declared there -/
def Db.tagged (db : Db) (path : List Nat) (t : Str) (n : Name) : Option Decl :=
  path.findSome? (fun k =>
    (db.tags.find? (fun x => x.1 = t ∧ x.2.1 = n ∧ x.2.2.2 = k)).bind (fun x => db.lookup (n, x.2.2)))

/-! ## version order on dotted numeric names (the fragment the generator uses; C10 owns the full order) -/

def splitDots : Str → Str → List Str
  | cur, [] => [cur.reverse]
  | cur, c :: cs => if c = 46 then cur.reverse :: splitDots [] cs else splitDots (c :: cur) cs

def comps (v : VStr) : List Nat := (splitDots [] v).map Str.toNat

/-- -1 / 0 / 1: component-wise numeric, the shorter prefix first -/
def cmpComps : List Nat → List Nat → Int
  | [], [] => 0
  | [], _ :: _ => -1
  | _ :: _, [] => 1
  | a :: as, b :: bs => if a < b then -1 else if b < a then 1 else cmpComps as bs

def vcmp (a b : VStr) : Int := if a = b then 0 else cmpComps (comps a) (comps b)

def RelOp.holds (op : RelOp) (c : Int) : Bool :=
  match op with
  | .lt => c < 0
  | .le => c ≤ 0
  | .eq => c = 0
  | .ge => c ≥ 0
  | .gt => c > 0

/-- `Eups.version_match` on `op v || op v …` -/
def vmatch (v : VStr) (e : VExpr) : Bool := e.any (fun (op, rhs) => op.holds (vcmp v rhs))

/-- the last maximum (`vers.sort(); vers[-1]`, then the first product carrying that version) -/
def latest : List VStr → Option VStr
  | [] => none
  | v :: vs => match latest vs with
    | none => some v
    | some w => if vcmp v w > 0 then some v else some w

/-! ## the version resolution order -/

inductive VroEnt where
  | keep | typeExact | commandLine | version | versionBang | versionExpr
  | tag (t : Str)
  | path | warn
deriving DecidableEq, Repr

def VroEnt.isVersionType : VroEnt → Bool
  | .version | .versionBang | .versionExpr => true
  | _ => false

/-- the code points of "current" (spelled out so that kernel evaluation never meets a `String`) -/
def tagCurrent : Str := [99, 117, 114, 114, 101, 110, 116]

/-- what `Eups.selectVRO` leaves in `preferredTags` for the default VRO dictionary
(`type:exact commandLine version versionExpr current`): `keep` at the head, `-t` tags after the last
`commandLine` / `type:` entry, duplicates removed, `type:exact` dropped by `--inexact`. -/
def dedup : List VroEnt → List VroEnt → List VroEnt
  | _, [] => []
  | seen, e :: es => if e ∈ seen then dedup seen es else e :: dedup (e :: seen) es

def lastFixed : Nat → Nat → List VroEnt → Nat
  | _, wh, [] => wh
  | i, wh, e :: es =>
    lastFixed (i + 1) (if e = .commandLine ∨ e = .typeExact then i + 1 else wh) es

def selectVRO (keep inexact : Bool) (tags : List Str) : List VroEnt :=
  let base : List VroEnt := [.typeExact, .commandLine, .version, .versionExpr, .tag tagCurrent]
  let v := if keep then VroEnt.keep :: base else base
  let v := if tags.isEmpty then v else
    let wh := lastFixed 0 0 v
    v.take wh ++ tags.map VroEnt.tag ++ v.drop wh
  let v := dedup [] v
  if inexact then v.filter (· ≠ .typeExact) else v

/-- `alreadySetupProducts`: name ↦ (product, VRO entry that selected it, if it was selected by this command) -/
abbrev Already := List (Name × (Decl × Option VroEnt))

/-- the loop of `findProductFromVRO`; result = (product, reason[0], the entry at which the loop stopped) -/
def walk (db : Db) (path : List Nat) (already : Already) (name : Name) (version : Option VerReq) (depth : Nat) :
    Option VExpr → List VroEnt → Option (Decl × VroEnt × VroEnt)
  | _, [] => none
  | vexpr, ent :: post =>
    match ent with
    | .path | .typeExact | .warn => walk db path already name version depth vexpr post
    | .keep =>
      if depth > 0 then
        match aget already name with
        | some (d, _) => some (d, .keep, .keep)
        | none => walk db path already name version depth vexpr post
      else walk db path already name version depth vexpr post
    | .commandLine =>
      match aget already name with
      | some (d, some .commandLine) => some (d, .commandLine, .commandLine)
      | _ => walk db path already name version depth vexpr post
    | .tag t =>
      match db.tagged path t name with
      | some d => some (d, .tag t, .tag t)
      | none => walk db path already name version depth vexpr post
    | .version | .versionBang | .versionExpr =>
      match version with
      | none => walk db path already name version depth vexpr post
      | some req =>
        -- a relational expression in place of the version is only for the `versionExpr` entry
        let skip : Option Bool := match req with      -- some true = continue, some false = break
          | .expr _ => if ent ≠ .versionExpr then some (decide (VroEnt.versionExpr ∈ post)) else none
          | .explicit _ => none
        match skip with
        | some true => walk db path already name version depth vexpr post
        | some false => none
        | none =>
          let vexpr : Option VExpr := match req with
            | .expr e => some e
            | .explicit _ => vexpr
          let byExpr : Option Decl :=
            if ent = .versionExpr then
              match vexpr with
              | some e =>
                (match latest ((db.versionsOn path name).filter (fun v => vmatch v e)) with
                 | some v => db.findVer path name v
                 | none => none)
              | none => none
            else none
          match byExpr with
          | some d => some (d, .versionExpr, ent)
          | none =>
            let byVer : Option Decl := match req with
              | .explicit v => db.findVer path name v
              | .expr _ => none
            match byVer with
            | some d => some (d, if depth = 0 then .commandLine else .version, ent)
            | none =>
              if post.any VroEnt.isVersionType then walk db path already name version depth vexpr post
              else none

/-- `findProductFromVRO`: the walk, then "an earlier reason outranks a later one" over `alreadySetupProducts` -/
def find (db : Db) (path : List Nat) (already : Already) (name : Name) (version : Option VerReq) (vexpr : Option VExpr)
    (depth : Nat) (vro : List VroEnt) : Option (Decl × VroEnt) :=
  match walk db path already name version depth vexpr vro with
  | none => none
  | some (d, reason, ent0) =>
    match aget already name with
    | some (od, some oreason) =>
      if oreason ∈ vro ∧ vro.idxOf ent0 > vro.idxOf oreason then some (od, oreason) else some (d, reason)
    | _ => some (d, reason)

inductive Resolved where
  | found (d : Decl) (reason : Option VroEnt)
  | none
  | error          -- `vroReason[0]` of `None` / `vro.index` of an absent entry: an exception in the code
deriving Repr

/-- the `while not product and vro` loop of `Eups.setup` (one flavor).  `k` bounds the number of
iterations; every iteration that continues strictly shortens `vro`, so `k = vro.length` suffices. -/
def resolve (db : Db) (path : List Nat) (keep : Bool) (already : Already) (name : Name) (version : Option VerReq)
    (vexpr : Option VExpr) (depth : Nat) : Nat → List VroEnt → Resolved
  | 0, _ => .none
  | k + 1, vro =>
    if vro.isEmpty then .none else
    let r : Option (Decl × Option VroEnt) :=
      match find db path already name version vexpr depth vro with
      | some (d, reason) => some (d, some reason)
      | none =>
        match aget already name with
        | some (d, _) =>
          if !keep && (version ≠ some (.explicit d.ver.1)) then none else some (d, none)
        | none => none
    match r with
    | none => .none
    | some (d, reason) =>
      match version with
      | some (.explicit v) =>
        if depth = 0 ∧ d.ver.1 ≠ v then
          match reason with
          | none => .error
          | some r => if r ∈ vro then resolve db path keep already name version vexpr depth k (vro.drop (vro.idxOf r + 1))
                      else .error
        else .found d reason
      | _ => .found d reason

/-- the declarations `findProductFromVRO` returned during the loop of `resolve`, in order (the accepted one last) -/
def resolveTrail (db : Db) (path : List Nat) (keep : Bool) (already : Already) (name : Name) (version : Option VerReq)
    (vexpr : Option VExpr) (depth : Nat) : Nat → List VroEnt → List Decl
  | 0, _ => []
  | k + 1, vro =>
    if vro.isEmpty then [] else
    match find db path already name version vexpr depth vro with
    | none => []
    | some (d, reason) =>
      match version with
      | some (.explicit v) =>
        if depth = 0 ∧ d.ver.1 ≠ v then
          (if reason ∈ vro then
             d :: resolveTrail db path keep already name version vexpr depth k (vro.drop (vro.idxOf reason + 1))
           else [d])
        else [d]
      | _ => [d]

/-- `Eups._productCache`: `findProductFromVRO` hands out the first `Product` it built for a key.  Since the repair of
C03's D94 the key is (product, database), i.e. (name, version, flavor) *and the stack*; before it the key had no stack
in it, so a later lookup that found the same version name in another stack got the earlier one (`pickDeclPinned`).
Kept as (name, version name, stack) ↦ stack. -/
abbrev PCache := List ((Name × VStr × Nat) × Nat)

def cacheIns (c : PCache) (d : Decl) : PCache :=
  if (aget c (d.name, d.ver.1, d.ver.2)).isSome then c else ((d.name, d.ver.1, d.ver.2), d.ver.2) :: c

/-- the product the cache hands out for a product just found -/
def pickDecl (db : Db) (c : PCache) (d : Decl) : Decl :=
  match aget c (d.name, d.ver.1, d.ver.2) with
  | some k => (db.lookup (d.name, (d.ver.1, k))).getD d
  | none => d

/-- the pinned rule (before the D94 repair): the stack is not part of the key -/
def pickDeclPinned (db : Db) (c : List ((Name × VStr) × Nat)) (d : Decl) : Decl :=
  match aget c (d.name, d.ver.1) with
  | some k => (db.lookup (d.name, (d.ver.1, k))).getD d
  | none => d

/-! ## environment and state -/

structure Env where
  recs : List (Name × Ver)           -- `SETUP_<P>`
  dirs : List (Name × Elem)          -- `<P>_DIR`
  paths : List (Str × List Elem)     -- path variables
  vars : List (Str × Elem)           -- `envSet` variables
deriving DecidableEq, Repr

def Env.empty : Env := ⟨[], [], [], []⟩

def Env.rec? (e : Env) (n : Name) : Option Ver := aget e.recs n
def Env.pathOf (e : Env) (var : Str) : List Elem := (aget e.paths var).getD []

/-- `findSetupProduct`: the recorded version, provided it is still declared -/
def setupProd (db : Db) (e : Env) (n : Name) : Option Decl :=
  match e.rec? n with
  | some v => db.lookup (n, v)
  | none => none

/-- `execute_envPrepend` on the element list of the variable: C12's list layer (`PathAlg.applyL`: the loop over the
pieces of the value, in order, followed by `pathUnique`) -/
def Env.addPath (e : Env) (var : Str) (xs : List Elem) (append : Bool) : Env :=
  { e with paths := aset e.paths var (PathAlg.applyL append true xs (e.pathOf var)) }

def Env.removePath (e : Env) (var : Str) (xs : List Elem) : Env :=
  { e with paths := aset e.paths var (PathAlg.applyL false false xs (e.pathOf var)) }

structure St where
  env : Env                          -- `os.environ`: restored when a dependency fails
  aliases : List (Str × Str)         -- `Eups.aliases`: restored with it
  unaliased : List Str               -- keys of `Eups.oldAliases` (marked for `unset`): restored with it
  already : Already                  -- `Eups.alreadySetupProducts`: not restored
  cache : PCache                     -- `Eups._productCache`: not restored
deriving Repr

inductive Res where
  | ok (s : St)
  | notFound (s : St)      -- `setup` returned False
  | raised (s : St)        -- an exception left `setup`
  | fuel                   -- out of fuel (the code: RecursionError)
deriving Repr

structure Cfg where
  db : Db
  path : List Nat            -- `EUPS_PATH`: the stacks this command searches, in order
  keep : Bool
  maxDepth : Option Nat      -- `max_depth`; none = -1
  exact : Bool               -- "exact" ∈ setupType
deriving Repr

abbrev Rec := Bool → Nat → Bool → List VroEnt → Name → Option VerReq → Option VExpr → St → Res

/-- `execute_envPrepend` / `execute_envSet` / `execute_addAlias` for the product `p` (dependency lines: no effect here) -/
def Act.apply (fwd : Bool) (p : Prod) : Act → St → St
  | .prepend var vals app, s =>
    { s with env := if fwd then s.env.addPath var (vals.map (·.elem p)) app
                    else s.env.removePath var (vals.map (·.elem p)) }
  | .set var val, s =>
    { s with env := if fwd then { s.env with vars := aset s.env.vars var (val.elem p) }
                    else { s.env with vars := aunset s.env.vars var } }
  | .alias key val, s =>
    if fwd then { s with aliases := aset s.aliases key val }
    else { s with aliases := aunset s.aliases key, unaliased := key :: s.unaliased.filter (· ≠ key) }
  | .dep _ _ _ _ _ _ _, s => s

/-- the action loop of `Eups.setup` (`a.execute(self, recursionDepth + 1, fwd, noRecursion, …)`);
`depth` is the `recursionDepth` of the product `d` whose table this is. -/
def acts (rec : Rec) (cfg : Cfg) (fwd : Bool) (depth : Nat) (noRec : Bool) (vro : List VroEnt) (d : Decl) :
    List Act → St → Res
  | [], s => .ok s
  | .dep n opt just ver vexpr tags keepLine :: rest, s =>
    if noRec || cfg.maxDepth = some depth then acts rec cfg fwd depth noRec vro d rest s
    else
      -- processArgs: the line's -t tags go in front of (a copy of) the current VRO, then "keep" in front of
      -- everything when the VRO in force has it or the line says -k; for this line only
      let vro' := if VroEnt.keep ∈ vro ∨ keepLine = true then VroEnt.keep :: (tags.map VroEnt.tag ++ vro)
                  else tags.map VroEnt.tag ++ vro
      match rec fwd (depth + 1) just vro' n (if fwd then ver else none) (if fwd then vexpr else none) s with
      | .ok s' => acts rec cfg fwd depth noRec vro d rest s'
      | .fuel => .fuel
      | .notFound s' | .raised s' =>
        -- popStack("env"): os.environ, aliases and the marks for `unset` go back to the saved values
        let s'' : St := ⟨s.env, s.aliases, s.unaliased, s'.already, s'.cache⟩
        if fwd && !opt then .raised s'' else acts rec cfg fwd depth noRec vro d rest s''
  | a :: rest, s => acts rec cfg fwd depth noRec vro d rest (a.apply fwd d.prod s)

/-- `{p.name: (p, None) for p in getSetupProducts()}` -/
def alreadyOfEnv (db : Db) (e : Env) : Already :=
  e.recs.filterMap (fun (n, v) => (db.lookup (n, v)).map (fun d => (n, (d, none))))

/-- the unsetup half of `Eups.setup` once the set-up product `d` is known: delete `SETUP_<P>`, `<P>_DIR`, replay the table -/
def unwind (rec : Rec) (cfg : Cfg) (depth : Nat) (noRec : Bool) (vro : List VroEnt) (d : Decl) (s : St) : Res :=
  acts rec cfg false depth noRec vro d (d.actions cfg.exact)
    { s with env := { s.env with dirs := aunset s.env.dirs d.name, recs := aunset s.env.recs d.name } }

/-- the state after the resolution loop: every product it looked at is in the product cache -/
def St.afterResolve (s : St) (cfg : Cfg) (depth : Nat) (vro : List VroEnt) (name : Name) (version : Option VerReq)
    (vexpr : Option VExpr) : St :=
  let trail := resolveTrail cfg.db cfg.path cfg.keep s.already name version vexpr depth vro.length vro
  { s with cache := trail.foldl cacheIns s.cache }

/-- at depth 0 `alreadySetupProducts` is rebuilt from the environment and the chosen product entered -/
def register (cfg : Cfg) (depth : Nat) (d : Decl) (reason : Option VroEnt) (s : St) : St :=
  if depth = 0 then { s with already := aset (alreadyOfEnv cfg.db s.env) d.name (d, reason) } else s

/-- `<P>_DIR`, `SETUP_<P>` and the entry in `alreadySetupProducts` -/
def record (d : Decl) (reason : Option VroEnt) (s : St) : St :=
  { s with env := { s.env with dirs := aset s.env.dirs d.name (.own d.prod []),
                               recs := aset s.env.recs d.name d.ver },
           already := aset s.already d.name (d, reason) }

/-- `PROD_DIR = none`: the directory of a product declared without one -/
def noneDir : Str := [110, 111, 110, 101]

/-- the setup half of `Eups.setup` once resolution has chosen `d` (and `register` has run): skip if already set
up, unsetup the set-up version, write the records, run the table -/
def install (rec : Rec) (cfg : Cfg) (depth : Nat) (noRec : Bool) (vro : List VroEnt) (d : Decl)
    (reason : Option VroEnt) (s : St) : Res :=
  match setupProd cfg.db s.env d.name with
  | none => acts rec cfg true depth noRec vro d (d.actions cfg.exact) (record d reason s)
  | some sd =>
    if (sd.ver.1 == d.ver.1 || (sd.dir == d.dir && d.dir != noneDir)) && decide (depth > 0) then .ok s
    else
      -- unsetupSetupProduct (at the same depth, so that max_depth keeps counting from the request);
      -- its outcome is not looked at
      match rec false depth noRec vro d.name none none s with
      | .fuel => .fuel
      | .ok s1 | .notFound s1 | .raised s1 =>
        acts rec cfg true depth noRec vro d (d.actions cfg.exact) (record d reason s1)

/-- `Eups.setup(productName, versionName, fwd, recursionDepth, noRecursion, versionExpr)` -/
def setup (cfg : Cfg) : Nat → Rec
  | 0 => fun _ _ _ _ _ _ _ _ => .fuel
  | fuel + 1 => fun fwd depth noRec vro name version vexpr s =>
    if fwd then
      match resolve cfg.db cfg.path cfg.keep s.already name version vexpr depth vro.length vro with
      | .none => .notFound s
      | .error => .raised s
      | .found d reason =>
        let d := pickDecl cfg.db s.cache d
        install (setup cfg fuel) cfg depth noRec vro d reason
          (register cfg depth d reason (s.afterResolve cfg depth vro name version vexpr))
    else
      match setupProd cfg.db s.env name with
      | none => .notFound s
      | some d => unwind (setup cfg fuel) cfg depth noRec vro d s

/-! ## requests (what `setup` / `unsetup` on the command line do) -/

structure Request where
  name : Name
  version : Option VerReq
  keep : Bool
  maxDepth : Option Nat
  inexact : Bool
  tags : List Str
  path : List Nat            -- the stacks on `EUPS_PATH` (or `-Z`) for this command
deriving Repr

def Request.cfg (r : Request) (db : Db) : Cfg := ⟨db, r.path, r.keep, r.maxDepth, !r.inexact⟩
def Request.vro (r : Request) : List VroEnt := selectVRO r.keep r.inexact r.tags

def St.init (e : Env) : St := ⟨e, [], [], [], []⟩

/-- `Eups(keep, max_depth); selectVRO(tag, versionName, inexact_version); Eups.setup(name, version)` -/
def runSetup (db : Db) (fuel : Nat) (r : Request) (e : Env) : Res :=
  setup (r.cfg db) fuel true 0 false r.vro r.name r.version none (St.init e)

/-- `Eups(...); selectVRO(); Eups.setup(name, fwd=False)` -/
def runUnsetup (db : Db) (fuel : Nat) (r : Request) (e : Env) : Res :=
  setup (r.cfg db) fuel false 0 false r.vro r.name none none (St.init e)

/-- C02's equality of environments: path variables as duplicate-free lists, lookups otherwise -/
def Env.approx (a b : Env) : Prop :=
  (∀ n, a.rec? n = b.rec? n) ∧ (∀ n, aget a.dirs n = aget b.dirs n) ∧
  (∀ var, PathAlg.uniq (a.pathOf var) = PathAlg.uniq (b.pathOf var)) ∧ (∀ var, aget a.vars var = aget b.vars var)

/-! ## what `eups.app.setup` hands to the shell -/

inductive Cmd where
  | exportRec (n : Name) (v : Ver)
  | exportDir (n : Name) (x : Elem)
  | exportPath (var : Str) (l : List Elem)
  | exportVar (var : Str) (x : Elem)
  | unsetRec (n : Name)
  | unsetDir (n : Name)
  | unsetPath (var : Str)
  | unsetVar (var : Str)
  | aliasDef (key val : Str)
  | aliasUnset (key : Str)
  | false_
deriving DecidableEq, Repr

def keysOf {β : Type} (l : List (Str × β)) : List Str := (l.map (·.1)).eraseDups

def exports {β : Type} [DecidableEq β] (mk : Str → β → Cmd) (old new : List (Str × β)) : List Cmd :=
  (keysOf new).filterMap fun k => match aget new k with
    | some v => if aget old k = some v then none else some (mk k v)
    | none => none

def unsets {β : Type} (mk : Str → Cmd) (old new : List (Str × β)) : List Cmd :=
  ((keysOf old).filter (fun k => (aget new k).isNone)).map mk

/-- the delta between `oldEnviron` and `os.environ`, then aliases -/
def delta (old : Env) (s : St) : List Cmd :=
  exports Cmd.exportRec old.recs s.env.recs ++ exports Cmd.exportDir old.dirs s.env.dirs ++
  exports Cmd.exportPath old.paths s.env.paths ++ exports Cmd.exportVar old.vars s.env.vars ++
  unsets Cmd.unsetRec old.recs s.env.recs ++ unsets Cmd.unsetDir old.dirs s.env.dirs ++
  unsets Cmd.unsetPath old.paths s.env.paths ++ unsets Cmd.unsetVar old.vars s.env.vars ++
  s.aliases.map (fun kv => Cmd.aliasDef kv.1 kv.2) ++
  (s.unaliased.filter (fun k => (aget s.aliases k).isNone)).map Cmd.aliasUnset

inductive Emitted where
  | cmds (l : List Cmd)
  | raised
  | fuel
deriving Repr

/-- `eups.app.setup(name, version, eupsenv=E, fwd)` -/
def appSetup (db : Db) (fuel : Nat) (fwd : Bool) (r : Request) (e : Env) : Emitted :=
  match (if fwd then runSetup db fuel r e else runUnsetup db fuel r e) with
  | .ok s => .cmds (delta e s)
  | .notFound _ => .cmds [.false_]
  | .raised _ => .raised
  | .fuel => .fuel

end EupsModel.Setup
