import EupsModel.Model.Lock
/-! C09 — the lock bracket of the command line: which eups command takes which kind of lock, and how it gives it back.

Mirrors the `register(...)` table at the end of `python/eups/cmd.py` (the lock type is an argument of the registration;
the default is exclusive), `EupsCmd.execute` (the bracket `takeLocks … try: run() finally: giveLocks`; `-h` and
`--nolocks` switch the lock off), `AdminCmd.execute` / `DistribCmd.execute` (the sub-commands take their own lock and
drop the list, so it is given back by the exit handler only) and `setupcmd.EupsSetup.run` (shared; `-N`).
Which stacks are locked is `Eups.setEupsPath(opts.path, opts.dbz)` — the very stacks the `Eups` object of the command
is then built on. -/
namespace EupsModel.LockCmd
open EupsModel.Lock (Kind)

inductive Cmd
  | flavor | path | startup | pkgroot | flags | list | pkgConfig | uses | expandbuild | expandtable
  | declare | undeclare | remove
  | admin | adminBuildCache | adminClearCache | adminClearServerCache | adminClearLocks | adminListLocks
  | adminListCache | adminInfo | adminShow
  | distrib | distribClean | distribCreate | distribDeclare | distribInstall | distribList | distribPath | distribTags
  | tags | vro | help
  | setup                                  -- bin/eups_setup (setup and unsetup), not in the register table
  deriving DecidableEq, Repr

def Cmd.all : List Cmd :=
  [.flavor, .path, .startup, .pkgroot, .flags, .list, .pkgConfig, .uses, .expandbuild, .expandtable,
   .declare, .undeclare, .remove,
   .admin, .adminBuildCache, .adminClearCache, .adminClearServerCache, .adminClearLocks, .adminListLocks,
   .adminListCache, .adminInfo, .adminShow,
   .distrib, .distribClean, .distribCreate, .distribDeclare, .distribInstall, .distribList, .distribPath,
   .distribTags, .tags, .vro, .help, .setup]

/-- the lock type the command is registered with (`None`: no lock) -/
def lockType : Cmd → Option Kind
  | .flavor | .path | .startup | .pkgroot | .flags => none
  | .list | .pkgConfig | .uses | .expandbuild | .expandtable => some .sh
  | .declare | .undeclare | .remove => some .ex
  | .admin => none                                        -- the sub-command takes the lock
  | .adminBuildCache | .adminClearCache | .adminClearServerCache => some .ex
  | .adminClearLocks | .adminListLocks => none            -- they work on the locks themselves
  | .adminListCache | .adminInfo => some .sh
  | .adminShow => none
  | .distrib => none                                      -- the sub-command takes the lock
  | .distribClean | .distribCreate | .distribDeclare | .distribInstall => some .ex
  | .distribList => some .sh
  | .distribPath | .distribTags => some .ex               -- registered with the default
  | .tags => some .sh
  | .vro | .help => none
  | .setup => some .sh

/-- the command writes into a stack: its database (version, chain and table files under `ups_db`), the stack-wide
product cache, or the installed products -/
def updates : Cmd → Bool
  | .declare | .undeclare | .remove => true
  | .adminBuildCache | .adminClearCache | .adminClearServerCache => true
  | .distribClean | .distribCreate | .distribDeclare | .distribInstall => true
  | _ => false

/-- the command hands its locks back itself (`finally: giveLocks(locks)`); otherwise they are released by the exit
handler `takeLocks` registers -/
def explicitRelease : Cmd → Bool
  | .adminBuildCache | .adminClearCache | .adminClearServerCache | .adminClearLocks | .adminListLocks
  | .adminListCache | .adminInfo | .adminShow => false
  | .distribClean | .distribCreate | .distribDeclare | .distribInstall | .distribList | .distribPath
  | .distribTags => false
  | _ => true

/-- a sub-command of `admin` / `distrib`: its lock is taken in `AdminCmd.execute` / `DistribCmd.execute`, which does
not look at `-h` -/
def isSub : Cmd → Bool
  | .adminBuildCache | .adminClearCache | .adminClearServerCache | .adminClearLocks | .adminListLocks
  | .adminListCache | .adminInfo | .adminShow => true
  | .distribClean | .distribCreate | .distribDeclare | .distribInstall | .distribList | .distribPath
  | .distribTags => true
  | _ => false

structure Opts where
  help    : Bool := false        -- -h / --help
  nolocks : Bool := false        -- --nolocks (setup: -N)
  enabled : Bool := true         -- hooks.config.site.lockDirectoryBase is not None

/-- the lock the command line takes on every stack of its path -/
def bracket (c : Cmd) (o : Opts) : Option Kind :=
  if o.nolocks || !o.enabled then none
  else if o.help && !isSub c then none
  else lockType c

/-- the stacks a command works on, hence locks: `-Z LIST` replaces `$EUPS_PATH`; `-z NAME` keeps the elements called
`NAME`; duplicates are dropped, the first occurrence stays (`Eups.setEupsPath`) -/
def dedup : List Nat → List Nat
  | [] => []
  | d :: r => d :: (dedup r).filter (· != d)

def lockedStacks (envPath : List Nat) (optZ : Option (List Nat)) (optz : Option Nat) : List Nat :=
  let p := match optZ with | some l => l | none => envPath
  let p := match optz with | some d => p.filter (· == d) | none => p
  dedup p

end EupsModel.LockCmd
