/-! Shared conventions of the models: strings are lists of code points (`Nat`), never `Char`. -/
namespace EupsModel

abbrev Str := List Nat

namespace Str

def ofString (s : String) : Str := s.toList.map Char.toNat
def toString (s : Str) : String := String.ofList (s.map Char.ofNat)

def isDigit (c : Nat) : Bool := 48 ≤ c && c ≤ 57
def isUpper (c : Nat) : Bool := 65 ≤ c && c ≤ 90
def isLower (c : Nat) : Bool := 97 ≤ c && c ≤ 122
def isAlpha (c : Nat) : Bool := isUpper c || isLower c
def isAlnum (c : Nat) : Bool := isAlpha c || isDigit c
/-- Python's `\s` on ASCII input: space, \t \n \v \f \r. -/
def isSpace (c : Nat) : Bool := c == 32 || (9 ≤ c && c ≤ 13)

/-- Python `str.lower()` restricted to ASCII. -/
def lower (s : Str) : Str := s.map fun c => if isUpper c then c + 32 else c

/-- Three-way comparison of Python strings (lexicographic on code points, shorter prefix first). -/
def cmp : Str → Str → Int
  | [], [] => 0
  | [], _ :: _ => -1
  | _ :: _, [] => 1
  | a :: as, b :: bs => if a < b then -1 else if b < a then 1 else cmp as bs

/-- Decimal value of a digit string (Python `int(s)` for `s` matching `\d+`). -/
def toNat (s : Str) : Nat := s.foldl (fun n c => 10 * n + (c - 48)) 0

end Str
end EupsModel
