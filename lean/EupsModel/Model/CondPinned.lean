import EupsModel.Model.Cond
/-! The condition evaluator of `python/eups/VersionParser.py` **as pinned** (before the repair of D3): one
loop for `||` and `&&` at the same level, and Python's short-circuit `lhs or self._term()` /
`lhs and self._term()`, which does not call `_term` — and therefore leaves the operand's tokens in the
stream — when the left operand already decides the result.  Kept for the negation witnesses of
`Props/C11.lean`; the registered check runs `Model/Cond.lean`. -/
namespace EupsModel.CondPinned
open EupsModel.Cond

mutual
  def prim (env : Env) : Nat → List Val → R
    | 0, _ => .fuel
    | f + 1, ts =>
      (peek env ts).bind fun nx =>
      if nx = .s sLp then
        (next env ts).bind fun p1 =>
        (expr env f p1.2).bind fun p2 =>
        (next env p2.2).bind fun p3 =>
        if p3.1 = .s sRp then .ok (p2.1, p3.2) else .err .runtime
      else if nx = .s sBang ∨ nx = .s sNot then
        (next env ts).bind fun p1 =>
        (expr env f p1.2).bind fun p2 => .ok (.b (!truthy p2.1), p2.2)
      else next env ts
  def term (env : Env) : Nat → List Val → R
    | 0, _ => .fuel
    | f + 1, ts =>
      (prim env f ts).bind fun p1 =>
      (next env p1.2).bind fun p2 =>
      match opOf p2.1 with
      | .eof => .ok (p1.1, p2.2)
      | .eq => (prim env f p2.2).bind fun p3 => .ok (.b (eqOrIn p1.1 p3.1), p3.2)
      | .ne => (prim env f p2.2).bind fun p3 => .ok (.b (!eqOrIn p1.1 p3.1), p3.2)
      | .re => (prim env f p2.2).bind fun p3 => (reSearch p3.1 p1.1).bind fun m => .ok (m, p3.2)
      | .nre => (prim env f p2.2).bind fun p3 => (reSearch p3.1 p1.1).bind fun m => .ok (.b (!truthy m), p3.2)
      | .lt => (prim env f p2.2).bind fun p3 => cmpRes p1.1 p3.1 (· < 0) p3.2
      | .le => (prim env f p2.2).bind fun p3 => cmpRes p1.1 p3.1 (· ≤ 0) p3.2
      | .gt => (prim env f p2.2).bind fun p3 => cmpRes p1.1 p3.1 (· > 0) p3.2
      | .ge => (prim env f p2.2).bind fun p3 => cmpRes p1.1 p3.1 (· ≥ 0) p3.2
      | _ => .ok (p1.1, push p2.1 p2.2)
  /-- the `while True` loop of the pinned `_expr` -/
  def exprLoop (env : Env) : Nat → Val → List Val → R
    | 0, _, _ => .fuel
    | f + 1, lhs, ts =>
      (next env ts).bind fun p1 =>
      match opOf p1.1 with
      | .or =>
        if truthy lhs then exprLoop env f lhs p1.2          -- `lhs or …`: `_term` is not called
        else (term env f p1.2).bind fun p2 => exprLoop env f p2.1 p2.2
      | .and =>
        if truthy lhs then (term env f p1.2).bind fun p2 => exprLoop env f p2.1 p2.2
        else exprLoop env f lhs p1.2                          -- `lhs and …`: `_term` is not called
      | _ => .ok (lhs, push p1.1 p1.2)
  def expr (env : Env) : Nat → List Val → R
    | 0, _ => .fuel
    | f + 1, ts => (term env f ts).bind fun p1 => exprLoop env f p1.1 p1.2
end

def evalToks (env : Env) (fuel : Nat) (ts : List Str) : Res Bool :=
  (expr env fuel (ts.map .s)).bind fun p => .ok (if p.1 = .s sEOF then false else truthy p.1)

def evalCond (env : Env) (fuel : Nat) (text : Str) : Res Bool :=
  match tokenize text with
  | Option.none => .err .unmodelled
  | some ts => evalToks env fuel ts

end EupsModel.CondPinned
