import EupsModel.Model.Deps
/-! Model of `Eups.remove` / `Eups._remove` (python/eups/Eups.py l.3216-3345), property C14.

The state is the abstract content of one stack: the declared products with the setup lines of their
tables, the tags (chain files) and the installation directories present.  The database proper
(`declare`/`undeclare` and its files) is property C06's model; `remove` needs of `undeclare` only its
abstract effect: the declaration and every tag on that version disappear. -/
namespace EupsModel.Remove
open EupsModel EupsModel.Deps

structure State where
  decls : List Decl
  tags : List (Str × Str × Str)      -- (product, tag, version): one chain file each
  dirs : List (Str × Str)            -- installation directory of (product, version) present
  /-- products set up in the environment of the command (`SETUP_<NAME>`), from this stack: name, version -/
  setup : List (Str × Str) := []
  /-- `utils.isDbWritable(product.db)`: the `ups_db` of the stack can be updated by the user of the command -/
  dbWritable : Bool := true
deriving Repr, DecidableEq

def currentTag : Str := Str.ofString "current"

/-- what the dependency machinery sees of the state -/
def State.db (s : State) : Db :=
  { decls := s.decls, current := (s.tags.filter fun t => t.2.1 == currentTag).map fun t => (t.1, t.2.2) }

/-- the ways `remove` ends without removing anything -/
inductive Err where
  | refused        -- EupsException "... is required by product ...; specify force to remove"
  | notFound       -- ProductNotFound from getProduct
  | cycle          -- RuntimeError out of uses() (topologicalSort's second exit)
  | outOfFuel      -- RecursionError
  | tableError     -- TableFileNotFound from `product.getTable()` (declared table file missing on disk)
  | isSetup        -- EupsException "Product ... is already setup; specify force to proceed"
  | noPermission   -- EupsException "You do not have permission to undeclare products from ..."
  | tagNotFound    -- `eups remove -t TAG product`: "Failed to lookup tag TAG for product ..." (exit status 2)
  | eof            -- `eups remove -i`: the answers ran out (`input` raises EOFError) — after earlier products are gone
deriving Repr, DecidableEq

inductive Outcome where
  | ok
  | failed (e : Err)
deriving Repr, DecidableEq

/-- `usedBy`: the users of the product other than the top product -/
def usedBy (sb : SetupBy) (top : Str × Str) (p : Prod) : List User :=
  (users sb p.name p.ver).filter fun u => u.name != top.1 || u.ver != top.2

/-- `if checkRecursive: usedBy = [...]; if usedBy:` (no `userInfo` = the check is off) -/
def inUse (sb : Option SetupBy) (top : Str × Str) (q : Prod) : Bool :=
  match sb with
  | some sb => !(usedBy sb top q).isEmpty
  | none => false

/-- the products whose dependencies have been (or are being) collected: `seen` of `_remove` -/
abbrev Seen := List (Str × Option Str)

/-- the `for product, o, recursionDepth in deps` loop of `_remove`; `recur q seen` is the nested call
`self._remove(q.name, q.version, q.name != productName, ..., seen)` -/
def collectLoop (sb : Option SetupBy) (force : Bool) (top : Str × Str) (recursive : Bool)
    (recur : Prod → Seen → Except Err (List Prod × Seen)) :
    List Prod → List Prod → Seen → Except Err (List Prod × Seen)
  | [], acc, seen => .ok (acc, seen)
  | q :: qs, acc, seen =>
    if inUse sb top q && !force then .error .refused
    else if recursive then
      match recur q seen with
      | .error e => .error e
      | .ok (sub, seen') => collectLoop sb force top recursive recur qs (acc ++ sub ++ [q]) seen'
    else collectLoop sb force top recursive recur qs (acc ++ [q]) seen

/-- `deps = [[product, False, 0]]; if recursive and not seen: tbl = product.getTable(); deps += tbl.dependencies(self)`
(not recursive: direct dependencies only) -/
def directDeps (db : Db) (p : Prod) (expand : Bool) : Except Err (List Prod) :=
  if expand then
    if db.tableMissing p then .error .tableError
    else match depsOf db db.fuel [] p false 0 St.empty with
      | none => .error .outOfFuel         -- never (`directDeps_not_fuel`); before the D32 repair: an unsetup line inside a cycle
      | some r => .ok (p :: r.1.map (·.prod))
  else .ok [p]

/-- `Eups._remove`: the list `productsToRemove` (with repetitions) and the visited set.  A product's
dependencies are collected the first time it is met with `recursive` set (so a dependency cycle ends). -/
def collect (db : Db) (sb : Option SetupBy) (force : Bool) (defaultName : Option Str) (top : Str × Str) :
    Nat → Str → Option Str → Bool → Seen → Except Err (List Prod × Seen)
  | 0, _, _, _, _ => .error .outOfFuel
  | f + 1, name, ver, recursive, seen =>
    if defaultName == some name then .ok ([], seen)
    else match db.find name ver with
      | none => .error .notFound
      | some p =>
        let expand := recursive && !seen.contains (prodkey p)
        match directDeps db p expand with
        | .error e => .error e
        | .ok deps =>
          collectLoop sb force top recursive
            (fun q sn => collect db sb force defaultName top f q.name q.ver (q.name != name) sn) deps []
            (if expand then prodkey p :: seen else seen)

/-- `_set(productsToRemove)` -/
def uniqProds (l : List Prod) : List Prod := Topo.dedup l

def removed (R : List Prod) (n v : Str) : Bool := R.any fun p => p.name == n && p.ver == some v

/-- the effect of `undeclare` + `rmtree(product.dir)` for every product of `R` -/
def destroy (s : State) (R : List Prod) : State :=
  { decls := s.decls.filter fun d => !removed R d.name d.ver
    tags := s.tags.filter fun t => !removed R t.1 t.2.2
    dirs := s.dirs.filter fun d => !removed R d.1 d.2
    setup := s.setup
    dbWritable := s.dbWritable }

/-- `Eups.isSetup(product)`: the environment says this version of the product is set up from this stack -/
def State.isSetup (s : State) (p : Prod) : Bool := s.setup.any fun x => x.1 == p.name && some x.2 == p.ver

/-- the destruction loop of `Eups.remove`, product by product and in this order: `self.undeclare(...)` — which
refuses when the database is not writable and, unless forced, when the product is set up, leaving that product and
the remaining ones alone but the earlier ones gone — and only then `shutil.rmtree(dir)` -/
def destroyLoop (force : Bool) : State → List Prod → Outcome × State
  | s, [] => (.ok, s)
  | s, p :: ps =>
    if !s.dbWritable then (.failed .noPermission, s)
    else if s.isSetup p && !force then (.failed .isSetup, s)
    else destroyLoop force (destroy s [p]) ps

/-- fuel for `_remove`'s own recursion: every nested call with `recursive` set opens a product not opened
before (at most one per declaration), the others end one level down -/
def State.removeFuel (s : State) : Nat := 2 * s.decls.length + 4

/-- `Eups.remove(productName, versionName, recursive, checkRecursive)` with `Eups.force`;
`uses` is the outcome of `self.uses(None)` (computed only when the check is on).
Returns the outcome, the new state and the products removed. -/
def removeWith (s : State) (uses : UsesOutcome) (name ver : Str) (recursive check force : Bool)
    (defaultName : Option Str) : Outcome × State × List Prod :=
  let go (sb : Option SetupBy) : Outcome × State × List Prod :=
    match collect s.db sb force defaultName (name, ver) s.removeFuel name (some ver) recursive [] with
    | .error e => (.failed e, s, [])
    | .ok (l, _) =>
      -- repaired tree (D37): no product of the removal set may be set up (unless forced) — checked before anything
      -- is destroyed; the refusal inside the loop can then no longer fire
      if !force && (uniqProds l).any s.isSetup then (.failed .isSetup, s, [])
      else ((destroyLoop force s (uniqProds l)).1, (destroyLoop force s (uniqProds l)).2, uniqProds l)
  if check then
    match uses with
    | .outOfFuel => (.failed .outOfFuel, s, [])
    | .cycle => (.failed .cycle, s, [])
    | .ok sb => go (some sb)
  else go none

def remove (s : State) (name ver : Str) (recursive check force : Bool) (defaultName : Option Str) :
    Outcome × State × List Prod :=
  removeWith s (usesInfo s.db s.db.fuel) name ver recursive check force defaultName

/-! ### `eups remove -i`: the prompts of the destruction loop -/

/-- one line typed at the prompt `Remove <product> <version>: (ynq!) [<default>]` -/
inductive Ans where
  | y | n | q | bang | empty | other
deriving Repr, DecidableEq

/-- `default_yn`: the last of `y`, `n`, `!` that was answered (`y` at the start) -/
inductive Dflt where
  | y | n | bang
deriving Repr, DecidableEq

inductive Decision where
  | remove | skip | quit | eof
deriving Repr, DecidableEq

/-- the prompt loop for one product: `yn = default_yn; while yn != "!": yn = input(...)`; an empty line is the default, `y`,
`n`, `!` become the default and end the loop, `q` returns from `remove`, anything else asks again.  After a `!` nothing is
asked any more. -/
def ask : Dflt → List Ans → Decision × Dflt × List Ans
  | .bang, as => (.remove, .bang, as)
  | d, [] => (.eof, d, [])
  | d, a :: as =>
    match a with
    | .y => (.remove, .y, as)
    | .n => (.skip, .n, as)
    | .bang => (.remove, .bang, as)
    | .q => (.quit, d, as)
    | .empty => (if d == .n then .skip else .remove, d, as)
    | .other => ask d as

/-- the destruction loop with `interactive=True`: every product (each once) is asked about first; `n` leaves it alone —
and ends the command when it is the requested product `top` itself (repair of D74: the others were collected, and
excused by the in-use check, because the requested product was to go) —, `q` ends the command — the products removed so
far stay removed —; third component: the products actually removed -/
def destroyLoopI (force : Bool) (top : Prod) : State → List Prod → Dflt → List Ans → Outcome × State × List Prod
  | s, [], _, _ => (.ok, s, [])
  | s, p :: ps, d, as =>
    match ask d as with
    | (.eof, _, _) => (.failed .eof, s, [])
    | (.quit, _, _) => (.ok, s, [])
    | (.skip, d', as') => if p == top then (.ok, s, []) else destroyLoopI force top s ps d' as'
    | (.remove, d', as') =>
      if !s.dbWritable then (.failed .noPermission, s, [])
      else if s.isSetup p && !force then (.failed .isSetup, s, [])
      else
        let r := destroyLoopI force top (destroy s [p]) ps d' as'
        (r.1, r.2.1, p :: r.2.2)

/-- pinned (before the repair of D74): `n` for the requested product only skipped it -/
def destroyLoopIPinned (force : Bool) : State → List Prod → Dflt → List Ans → Outcome × State × List Prod
  | s, [], _, _ => (.ok, s, [])
  | s, p :: ps, d, as =>
    match ask d as with
    | (.eof, _, _) => (.failed .eof, s, [])
    | (.quit, _, _) => (.ok, s, [])
    | (.skip, d', as') => destroyLoopIPinned force s ps d' as'
    | (.remove, d', as') =>
      if !s.dbWritable then (.failed .noPermission, s, [])
      else if s.isSetup p && !force then (.failed .isSetup, s, [])
      else
        let r := destroyLoopIPinned force (destroy s [p]) ps d' as'
        (r.1, r.2.1, p :: r.2.2)

/-- `Eups.remove(..., interactive=True)`: collection, in-use check and the set-up pre-check as without `-i`; then the
loop with its prompts -/
def removeWithI (s : State) (uses : UsesOutcome) (name ver : Str) (recursive check force : Bool)
    (defaultName : Option Str) (answers : List Ans) : Outcome × State × List Prod :=
  let go (sb : Option SetupBy) : Outcome × State × List Prod :=
    match collect s.db sb force defaultName (name, ver) s.removeFuel name (some ver) recursive [] with
    | .error e => (.failed e, s, [])
    | .ok (l, _) =>
      if !force && (uniqProds l).any s.isSetup then (.failed .isSetup, s, [])
      else destroyLoopI force ⟨name, some ver, true⟩ s (uniqProds l) .y answers
  if check then
    match uses with
    | .outOfFuel => (.failed .outOfFuel, s, [])
    | .cycle => (.failed .cycle, s, [])
    | .ok sb => go (some sb)
  else go none

/-- pinned `Eups.remove(..., interactive=True)` (before the repair of D74) -/
def removeWithIPinned (s : State) (uses : UsesOutcome) (name ver : Str) (recursive check force : Bool)
    (defaultName : Option Str) (answers : List Ans) : Outcome × State × List Prod :=
  let go (sb : Option SetupBy) : Outcome × State × List Prod :=
    match collect s.db sb force defaultName (name, ver) s.removeFuel name (some ver) recursive [] with
    | .error e => (.failed e, s, [])
    | .ok (l, _) =>
      if !force && (uniqProds l).any s.isSetup then (.failed .isSetup, s, [])
      else destroyLoopIPinned force s (uniqProds l) .y answers
  if check then
    match uses with
    | .outOfFuel => (.failed .outOfFuel, s, [])
    | .cycle => (.failed .cycle, s, [])
    | .ok sb => go (some sb)
  else go none

/-! ### histories on one `Eups` object: `declare` between two removals -/

/-- `Eups.declare(name, version, productDir)` of a product not declared so far, as far as `remove` is concerned: the
declaration with the setup lines of its table, its directory, and — for the first version of a product — the tag
`current` (`declare` makes the first version current on its own).  The database proper is C06's model. -/
def declare (s : State) (d : Decl) : State :=
  { s with decls := s.decls ++ [d], dirs := s.dirs ++ [(d.name, d.ver)],
           tags := if s.decls.any (fun x => x.name == d.name) then s.tags
                   else s.tags ++ [(d.name, currentTag, d.ver)] }

/-! ### `RemoveCmd.execute` (python/eups/cmd.py): the `-t TAG` forms of the command line -/

/-- `eups remove -t TAG product` (no version): the version of the product that carries the tag is removed -/
def removeByTag (s : State) (uses : UsesOutcome) (name tag : Str) (recursive check force : Bool)
    (defaultName : Option Str) : Outcome × State × List Prod :=
  match s.tags.find? (fun t => t.1 == name && t.2.1 == tag) with
  | none => (.failed .tagNotFound, s, [])
  | some t => removeWith s uses name t.2.2 recursive check force defaultName

/-- `eups remove -t TAG` (no product): the tag is taken off every product; nothing is undeclared or deleted -/
def untag (s : State) (tag : Str) : State := { s with tags := s.tags.filter fun t => t.2.1 != tag }

end EupsModel.Remove
