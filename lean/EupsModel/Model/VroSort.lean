import EupsModel.Model.Vro
/-! Python's `vers.sort(key=cmp_to_key(cmp)); vers[-1]` as seen through the specification of
`list.sort`: a *stable* sort that only ever asks `K(a) < K(b)`, i.e. `cmp a b < 0`.  The model is the
simplest executable algorithm with that specification, a stable insertion sort driven by the strict
test alone.  `Lemmas/VroSort.lean` proves that `lastMax` (the fold `Model/Vro.lean` uses) returns the
last element of this sort whenever `cmp` is a total preorder on the names involved. -/
namespace EupsModel.Vro

/-- insert `x` behind every element it is not strictly smaller than (stability: behind its equals) -/
def insertStable (cmp : Str → Str → Int) (x : Str) : List Str → List Str
  | [] => [x]
  | y :: ys => if cmp x y < 0 then x :: y :: ys else y :: insertStable cmp x ys

/-- `l.sort(key=cmp_to_key(cmp))`: elements inserted left to right -/
def stableSort (cmp : Str → Str → Int) (l : List Str) : List Str :=
  l.foldl (fun acc x => insertStable cmp x acc) []

/-- `l.sort(key=cmp_to_key(cmp)); l[-1]` (`none` for the empty list) -/
def sortLast (cmp : Str → Str → Int) (l : List Str) : Option Str := (stableSort cmp l).getLast?

end EupsModel.Vro
