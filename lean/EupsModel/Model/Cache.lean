import EupsModel.Model.Db
import EupsModel.Model.DbFile
/-! Model of the persisted product cache (`ProductStack.fromCache / _tryCache / cacheIsUpToDate / persist`,
`Database.isNewerThan`, `Eups.__init__` l.309-313) over `Model/Db.lean`.

A `World` is what survives between commands: the database, the installation directories, the modification
time of every product directory of every stack (`touch`: newest mtime of `ups_db/<product>` and of the
version and chain files in it — the only times `isNewerThan` looks at), the cache files of every
(user, stack, flavor) with their mtimes, and a logical clock (DESIGN 4.4: the harness renumbers the mtimes
after every command in the order of the real modification times, so only the order of effects matters).

A command (`step`) is one process: `load` every stack (accept the cache files of the native flavor and of its
fallback, or rebuild from the database and save every flavor found; the pinned rule of D16 — native flavor only —
is kept as `loadStackPinned`), run the command of `Db.lean` on that view,
and apply its effects in order, each in three parts: the `Database` mutation changes `db` and `touch`, the
write-through changes the process's view, `save` writes the cache file of the stack from the view.  A crash
cuts the trace right after the `Database` part of the k-th effect. -/
namespace EupsModel.Cache
open EupsModel.Db

abbrev User := Nat

/-- a cache file `<userdata>/_caches_/<stack>/<flavor>.pickleDB1_3_0`: the pickled `lookup[flavor]` -/
structure CacheFile where
  user : User
  stack : Nat
  flav : Flav
  c : Spec
  mtime : Nat
  deriving DecidableEq, Repr

structure Touch where
  stack : Nat
  name : Name
  mtime : Nat
  deriving DecidableEq, Repr

structure World where
  nst : Nat
  db : Spec
  dirs : List DirEnt
  touch : List Touch
  caches : List CacheFile
  now : Nat
  extras : List Extra := []
  /-- table files kept outside the installation directories (static) -/
  tfiles : List TFile := []
  deriving Repr

def World.init (nst : Nat) (dirs : List DirEnt) (tfiles : List TFile := []) : World :=
  ⟨nst, Spec.empty, dirs, [], [], 1, [], tfiles⟩

/-! ## pieces of a `Spec` -/

/-- the part of a content that belongs to (stack, flavor): what one cache file holds -/
def restrict (c : Spec) (s : Nat) (f : Flav) : Spec :=
  ⟨c.decls.filter (fun d => d.stack == s && d.flav == f), c.tags.filter (fun r => r.stack == s && r.flav == f)⟩

/-- `ProductStack.refreshFromDatabase` on stack `s`: every product of every flavor, with the tags that name
a declared version (`Database.findProducts` drops the others) -/
def snapshot (db : Spec) (s : Nat) : Spec :=
  ⟨db.decls.filter (fun d => d.stack == s),
   db.tags.filter (fun r => r.stack == s && db.hasDecl r.stack r.name r.ver r.flav)⟩

def dedup : List Str → List Str
  | [] => []
  | x :: xs => x :: (dedup xs).filter (· != x)

/-- `Database.findProductNames()` of stack `s`: product directories holding a version file -/
def dbNames (db : Spec) (s : Nat) : List Name := dedup ((db.decls.filter (fun d => d.stack == s)).map (·.name))

/-- `ProductStack.getProductNames()` of a loaded content -/
def specNames (c : Spec) : List Name := dedup (c.decls.map (·.name))

def sameSet (a b : List Str) : Bool := a.all b.contains && b.all a.contains

def specFlavors (c : Spec) : List Flav := dedup (c.decls.map (·.flav))

def specUnion (a b : Spec) : Spec := ⟨a.decls ++ b.decls, a.tags ++ b.tags⟩

/-! ## cache files -/

def World.findCache (w : World) (u : User) (s : Nat) (f : Flav) : Option CacheFile :=
  w.caches.find? fun c => c.user == u && c.stack == s && c.flav == f

def setCache (cs : List CacheFile) (c : CacheFile) : List CacheFile :=
  c :: cs.filter fun x => !(x.user == c.user && x.stack == c.stack && x.flav == c.flav)

def rmCache (cs : List CacheFile) (u : User) (s : Nat) (f : Flav) : List CacheFile :=
  cs.filter fun x => !(x.user == u && x.stack == s && x.flav == f)

/-- `not Database(dbpath).isNewerThan(cache_mtime)`: no product directory of the stack, nor a version or
chain file in it, is newer (`>`) than the cache file -/
def upToDate (w : World) (s : Nat) (t : Nat) : Bool :=
  w.touch.all fun x => x.stack != s || x.mtime ≤ t

/-- the freshness half of `_tryCache` for one cache file, and the half of the product-name check that concerns
it: the file is up to date and names only products the database has -/
def accepts (w : World) (cf : CacheFile) : Bool :=
  upToDate w cf.stack cf.mtime && (specNames cf.c).all (dbNames w.db cf.stack).contains

/-- persist the flavors `fs` of the view `m` of stack `s`, one clock tick each -/
def saveAll (u : User) (s : Nat) (m : Spec) : List Flav → World → World
  | [], w => w
  | f :: fs, w =>
    saveAll u s m fs { w with caches := setCache w.caches ⟨u, s, f, restrict m s f, w.now⟩, now := w.now + 1 }

/-- result of loading one stack: the view, the flavors it holds (`ProductStack.getFlavors()`), the world -/
structure Loaded where
  view : Spec
  flavs : List Flav
  w : World

/-- the flavors `Eups.__init__` asks the cache for: the native flavor and its fallback
(`utils.uniq(getFallbackFlavors(self.flavor, True))`, the fallback flavors being installed first) -/
def needed (self : Flav) : List Flav := dedup (fallbacks self)

/-- the cache files of (user, stack) for the flavors `fs`, when all of them exist -/
def findCaches (w : World) (u : User) (s : Nat) : List Flav → Option (List CacheFile)
  | [] => some []
  | f :: fs =>
    match w.findCache u s f, findCaches w u s fs with
    | some c, some cs => some (c :: cs)
    | _, _ => none

def unionAll : List Spec → Spec
  | [] => Spec.empty
  | c :: cs => specUnion c (unionAll cs)

/-- the cache kept inside `ups_db/` of a stack, for everybody (`eups admin buildCache -A` writes it): the cache
directory of a user of its own.  A process in admin mode (`Eups(asAdmin=True)`) is a process of this user. -/
def sysUser : User := 0

/-- `ProductStack._tryCache(dbpath, cacheDir, flavors)` on the cache directory of `u`: when the cache file of every
needed flavor exists there and is up to date, and together they name the products of the database, THOSE files are
loaded -/
def tryCache (w : World) (u : User) (self : Flav) (s : Nat) : Option Spec :=
  match findCaches w u s (needed self) with
  | none => none
  | some cfs =>
    let view := unionAll (cfs.map (·.c))
    if cfs.all (accepts w) && (dbNames w.db s).all (specNames view).contains then some view else none

/-- `ProductStack.fromCache(dbpath, neededFlavors, persistDir=userCacheDir)` in a fresh process: the user's own cache
directory is tried first, then the one inside `ups_db/`; when neither is accepted the stack is rebuilt from the
database, every flavor of it, and every flavor is saved in the user's directory -/
def loadStack (w : World) (u : User) (self : Flav) (s : Nat) : Loaded :=
  match tryCache w u self s with
  | some view => ⟨view, needed self, w⟩
  | none =>
    match tryCache w sysUser self s with
    | some view => ⟨view, needed self, w⟩
    | none =>
      let m := snapshot w.db s
      let fs := specFlavors m ++ (needed self).filter fun f => !(specFlavors m).contains f
      ⟨m, fs, saveAll u s m fs w⟩

/-- `Eups.__init__`: every stack of the path in order; the flavors each stack holds are kept by stack -/
def loadFrom (u : User) (self : Flav) :
    List Nat → Spec → List (Nat × List Flav) → World → Spec × List (Nat × List Flav) × World
  | [], m, fl, w => (m, fl, w)
  | s :: ss, m, fl, w =>
    let l := loadStack w u self s
    loadFrom u self ss (specUnion m l.view) (fl ++ [(s, l.flavs)]) l.w

def load (w : World) (u : User) (self : Flav) : Spec × List (Nat × List Flav) × World :=
  loadFrom u self (allStacks w.nst) Spec.empty [] w

/-- `self.versions[stack].getFlavors()` during the command (none for a stack that is not on the path) -/
def heldOf (fl : List (Nat × List Flav)) (s : Nat) : List Flav :=
  match fl.find? (fun x => x.1 == s) with
  | some x => x.2
  | none => []

/-! ### the pinned rule (D16, repaired): the fallback flavors were installed after the cache was read -/

def acceptsPinned (w : World) (cf : CacheFile) : Bool :=
  upToDate w cf.stack cf.mtime && sameSet (specNames cf.c) (dbNames w.db cf.stack)

/-- the load rule of the pinned tree: an accepted cache is loaded for the native flavor only -/
def loadStackPinned (w : World) (u : User) (self : Flav) (s : Nat) : Loaded :=
  let rebuild : Loaded :=
    let m := snapshot w.db s
    let fs := specFlavors m ++ (if (specFlavors m).contains self then [] else [self])
    ⟨m, fs, saveAll u s m fs w⟩
  match w.findCache u s self with
  | none => rebuild
  | some cf => if acceptsPinned w cf then ⟨cf.c, [self], w⟩ else rebuild

def loadFromPinned (u : User) (self : Flav) :
    List Nat → Spec → List (Nat × List Flav) → World → Spec × List (Nat × List Flav) × World
  | [], m, fl, w => (m, fl, w)
  | s :: ss, m, fl, w =>
    let l := loadStackPinned w u self s
    loadFromPinned u self ss (specUnion m l.view) (fl ++ [(s, l.flavs)]) l.w

def loadPinned (w : World) (u : User) (self : Flav) : Spec × List (Nat × List Flav) × World :=
  loadFromPinned u self (allStacks w.nst) Spec.empty [] w

/-! ## effects on the world -/

/-- the product directory an effect writes in -/
def effKey : Eff → Option (Nat × Name)
  | .declare d _ => some (d.stack, d.name)
  | .undeclare s n _ _ => some (s, n)
  | .assign s _ n _ _ => some (s, n)
  | .unassign s _ n _ => some (s, n)
  | .rmTree _ => none
  | .copyExtra _ => none

/-- does the `Database` call rewrite or remove a file (an unassign of a tag that is not there does not) -/
def effWrites (db : Spec) : Eff → Bool
  | .declare _ _ => true
  | .undeclare s n v f => db.hasDecl s n v f
  | .assign s _ n f v => db.hasDecl s n v f
  | .unassign s t n f => db.hasTag s t n f
  | .rmTree _ => false
  | .copyExtra _ => false

def setTouch (ts : List Touch) (s : Nat) (n : Name) (t : Option Nat) : List Touch :=
  let rest := ts.filter fun x => !(x.stack == s && x.name == n)
  match t with
  | none => rest
  | some t => ⟨s, n, t⟩ :: rest

/-- first part of an effect: the `Database` mutation (files and their modification times) -/
def applyDbW (w : World) (e : Eff) : World :=
  match effKey e with
  | none => w
  | some (s, n) =>
    if effWrites w.db e then
      let db' := applyDb e w.db
      let alive := db'.decls.any fun d => d.stack == s && d.name == n
      { w with db := db', touch := setTouch w.touch s n (if alive then some w.now else none), now := w.now + 1 }
    else w

/-- last part of an effect: `save(getFlavors())` — the cache file of every flavor the stack holds is written from
the in-memory view `m'`; `rmTree` removes the directory, `copyExtra` saves an extra file -/
def applySaveW (u : User) (held : Nat → List Flav) (w : World) (m m' : Spec) (e : Eff) : World :=
  match e with
  | .rmTree d => { w with dirs := w.dirs.filter fun x => x.dir != d }
  | .copyExtra x => { w with extras := x :: w.extras.filter fun y =>
      !(y.stack == x.stack && y.flav == x.flav && y.name == x.name && y.ver == x.ver && y.path == x.path) }
  | _ =>
    match e.saves m with
    | none => w
    | some (s, _) => saveAll u s m' (held s) w

/-- one whole effect of a process of user `u` whose in-memory view is `m` and whose stacks hold the flavors
`held` (`fixed`: with the D1 repair): database, write-through, save -/
def applyW (fixed : Bool) (u : User) (held : Nat → List Flav) (wm : World × Spec) (e : Eff) : World × Spec :=
  let m' := applyMemG fixed e wm.2
  (applySaveW u held (applyDbW wm.1 e) wm.2 m' e, m')

/-- the pinned tree saved the cache file of the flavor of the effect only (`save(self.flavor)`) -/
def applyWPinned (u : User) (wm : World × Spec) (e : Eff) : World × Spec :=
  let m' := applyMem e wm.2
  let w1 := applyDbW wm.1 e
  (match e with
   | .rmTree d => { w1 with dirs := w1.dirs.filter fun x => x.dir != d }
   | .copyExtra _ => w1
   | _ =>
     match e.saves wm.2 with
     | none => w1
     | some (s, f) => { w1 with caches := setCache w1.caches ⟨u, s, f, restrict m' s f, w1.now⟩, now := w1.now + 1 },
   m')

/-- a trace cut by a crash right after the k-th `Database` mutation (`k ≥ 1`): the effects applied in full and
the one of which only the database part happens; the whole trace when it has fewer than k mutations -/
def cutAfterDb : List Eff → Nat → List Eff × Option Eff
  | [], _ => ([], none)
  | _, 0 => ([], none)
  | e :: es, k + 1 =>
    if e.isDb then
      (if k = 0 then ([], some e) else let r := cutAfterDb es k; (e :: r.1, r.2))
    else let r := cutAfterDb es (k + 1); (e :: r.1, r.2)

/-- a trace cut by a kill at the ENTRY of the j-th `Database` mutation (`j ≥ 1`): everything before it, in full (the
point "between the cache update of one effect and the database update of the next"; were the code to write the
cache first, this is where cache and files would part) -/
def cutBeforeDb : List Eff → Nat → List Eff
  | [], _ => []
  | _, 0 => []
  | e :: es, j + 1 =>
    if e.isDb then (if j = 0 then [] else e :: cutBeforeDb es j) else e :: cutBeforeDb es (j + 1)

/-- crash points are numbered: `k < killBase`: right after the k-th `Database` mutation returns (`cutAfterDb`);
`killBase + j`: at the entry of the j-th (`cutBeforeDb`) -/
def killBase : Nat := 100

def cutAt (tr : List Eff) (k : Nat) : List Eff × Option Eff :=
  if k < killBase then cutAfterDb tr k else (cutBeforeDb tr (k - killBase), none)

/-- replay of a trace, possibly cut -/
def replay (fixed : Bool) (u : User) (held : Nat → List Flav) (wm : World × Spec) (es : List Eff)
    (last : Option Eff) : World :=
  let wm' := es.foldl (applyW fixed u held) wm
  match last with
  | none => wm'.1
  | some e => applyDbW wm'.1 e

/-! ## commands of a history -/

inductive WCmd
  /-- one process of user `u`; `crash = some k`: it dies right after its k-th `Database` mutation -/
  | run (u : User) (c : Cmd) (crash : Option Nat)
  /-- the cache file of (user, stack, flavor) is deleted -/
  | rmCache (u : User) (s : Nat) (f : Flav)
  /-- `eups admin clearCache`: every cache file of the user, for every stack, goes -/
  | clearCache (u : User)
  /-- `eups admin buildCache -A` run by user `u` with flavor `self`: `clearCache(inUserDir=False)` — which clears the
  caches in the USER's directory (`userStackCacheFor(p, None)` falls back to it) — then `Eups(asAdmin=True)`, whose
  cache directory is `ups_db/` of each stack: accepted when current, rebuilt and saved there otherwise -/
  | adminBuild (u : User) (self : Flav)
  /-- somebody deletes an installation directory by hand (`rm -rf`), without telling eups -/
  | envRmDir (d : Dir)
  deriving Repr

structure StepResult where
  out : Outcome
  crashed : Bool
  flavs : List (Nat × List Flav)   -- flavors each stack holds after `Eups.__init__`
  view : Spec                   -- the in-memory stacks after `Eups.__init__`
  trace : List Eff
  would : List Msg              -- what the command reports it would do (meaningful for dry runs)
  w : World

def stepG (fixed : Bool) (w : World) : WCmd → StepResult
  | .rmCache u s f => ⟨.ok, false, [], Spec.empty, [], [], { w with caches := rmCache w.caches u s f }⟩
  | .clearCache u => ⟨.ok, false, [], Spec.empty, [], [], { w with caches := w.caches.filter fun x => x.user != u }⟩
  | .adminBuild u self =>
    let (m, fl, w1) := load { w with caches := w.caches.filter fun x => x.user != u } sysUser self
    ⟨.ok, false, fl, m, [], [], w1⟩
  | .envRmDir d => ⟨.ok, false, [], Spec.empty, [], [], { w with dirs := w.dirs.filter fun e => e.dir != d }⟩
  | .run u c crash =>
    let (m, fl, w1) := load w u c.self
    let (out, p) := run w.nst c ⟨w1.db, m, w1.dirs, [], w1.extras, w.tfiles⟩
    let cut : List Eff × Option Eff := match crash with
      | none => (p.tr, none)
      | some k => cutAt p.tr k
    ⟨out, cut.2.isSome || decide (cut.1.length < p.tr.length), fl, m, cut.1 ++ cut.2.toList, wouldDo w.nst c ⟨w1.db, m, w1.dirs, [], w1.extras, w.tfiles⟩,
     replay fixed u (heldOf fl) (w1, m) cut.1 cut.2⟩

def step (w : World) (c : WCmd) : World := (stepG true w c).w
/-- the tree without the D1 repair (`ProductFamily.removeVersion`) -/
def stepPinned (w : World) (c : WCmd) : World := (stepG false w c).w

/-- a command (not killed) on the tree without the D16 repair: native flavor only from an accepted cache, and
`save(self.flavor)` after each mutation -/
def stepPinnedD16 (w : World) : WCmd → World
  | .rmCache u s f => { w with caches := rmCache w.caches u s f }
  | .clearCache u => { w with caches := w.caches.filter fun x => x.user != u }
  | .adminBuild u self => (stepG true w (.adminBuild u self)).w
  | .envRmDir d => { w with dirs := w.dirs.filter fun e => e.dir != d }
  | .run u c _ =>
    let (m, _, w1) := loadPinned w u c.self
    let (_, p) := run w.nst c ⟨w1.db, m, w1.dirs, [], w1.extras, w.tfiles⟩
    (p.tr.foldl (applyWPinned u) (w1, m)).1

/-- what a fresh process of the pinned tree sees through the cache -/
def viaCachePinnedD16 (w : World) (u : User) (self : Flav) : Spec := (loadPinned w u self).1

def runHistory (w : World) (h : List WCmd) : World := h.foldl step w

/-- what a fresh process of user `u` and flavor `self` sees through the cache -/
def viaCache (w : World) (u : User) (self : Flav) : Spec := (load w u self).1

/-! ## the same history on the files -/

/-- one command of a history on the record files: the effects the command performs (`StepResult.trace`: cut by a
crash, the last one reduced to its `Database` part — which is all `applyF` looks at) applied to the files by
`DbFile.applyF`; the decisions of the command are the ones of `stepG` -/
def stepF (Fw : DbFile.FileDb × World) (c : WCmd) : DbFile.FileDb × World :=
  let r := stepG true Fw.2 c
  (r.trace.foldl (fun F e => DbFile.applyF e F) Fw.1, r.w)

def runHistoryF (nst : Nat) (dirs : List DirEnt) (h : List WCmd) (tfiles : List TFile := []) : DbFile.FileDb × World :=
  h.foldl stepF (DbFile.FileDb.empty, World.init nst dirs tfiles)

end EupsModel.Cache
