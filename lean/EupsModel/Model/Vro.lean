import EupsModel.Model.Str
/-! Model of version resolution (python/eups/Eups.py): `findProductFromVRO` (l.777), the per-entry
lookups `_findTaggedProduct` (l.1121), `_findLatestProduct` (l.1276), `_findProductsByExpr` (l.1331),
`_selectPreferredProduct` (l.1371), the flavor loop of `Eups.setup` (l.1872-1918), and `selectVRO`
(l.3592) with `__mergeWarnings`, `makeVroExact` and `_kindlySetPreferredTags` (l.644).

Interfaces kept open on purpose:
* the version order: `Ord.cmp` (`Eups.version_cmp`) and `Ord.matches` (`Eups.version_match`) are
  parameters; C10 owns them.  The theorems assume the order properties (`GoodOrd`) as hypotheses.
* *which declarations a lookup can see* is an input: `Ctx.db` is the view used by every entry
  except `latest`, `Ctx.dbLatest` the one used by `latest` (`_findTaggedProduct` calls
  `_findLatestProduct` without forwarding `noCache`).  Through the files the view is the whole
  database; through the cache of a fresh process it is `cacheView` (D16, shared with C07). -/
namespace EupsModel.Vro

/-! ## vocabulary (code points, see `Model/Str.lean`) -/
def kPath : Str := [112, 97, 116, 104]  -- 'path'
def kKeep : Str := [107, 101, 101, 112]  -- 'keep'
def kCommandLine : Str := [99, 111, 109, 109, 97, 110, 100, 76, 105, 110, 101]  -- 'commandLine'
def kVersion : Str := [118, 101, 114, 115, 105, 111, 110]  -- 'version'
def kVersionBang : Str := [118, 101, 114, 115, 105, 111, 110, 33]  -- 'version!'
def kVersionExpr : Str := [118, 101, 114, 115, 105, 111, 110, 69, 120, 112, 114]  -- 'versionExpr'
def kLatest : Str := [108, 97, 116, 101, 115, 116]  -- 'latest'
def kSetup : Str := [115, 101, 116, 117, 112]  -- 'setup'
def kType : Str := [116, 121, 112, 101]  -- 'type'
def kWarn : Str := [119, 97, 114, 110]  -- 'warn'
def kDefault : Str := [100, 101, 102, 97, 117, 108, 116]  -- 'default'
def kTypeExact : Str := [116, 121, 112, 101, 58, 101, 120, 97, 99, 116]  -- 'type:exact'
def kWarn1 : Str := [119, 97, 114, 110, 58, 49]  -- 'warn:1'
def kExact : Str := [101, 120, 97, 99, 116]  -- 'exact'
def kFileColon : Str := [102, 105, 108, 101, 58]  -- 'file:'
def kWarnColon : Str := [119, 97, 114, 110, 58]  -- 'warn:'
def kTypeColon : Str := [116, 121, 112, 101, 58]  -- 'type:'
def kCurrent : Str := [99, 117, 114, 114, 101, 110, 116]  -- 'current'
def colon : Nat := 58
def kLocal : Str := [76, 79, 67, 65, 76, 58]  -- 'LOCAL:' (Product.LocalVersionPrefix)
def kPathFromVersion : Str := [112, 97, 116, 104, 32, 102, 114, 111, 109, 32, 118, 101, 114, 115, 105, 111, 110]  -- 'path from version'
def kUserColon : Str := [117, 115, 101, 114, 58]  -- 'user:'
def kGlobalColon : Str := [103, 108, 111, 98, 97, 108, 58]  -- 'global:'

/-- hooks.py l.49: `config.Eups.VRO["default"]` -/
def defaultBase : List Str := [kTypeExact, kCommandLine, kVersion, kVersionExpr, kCurrent]

/-- the pseudo tags registered by `Eups.__init__` (l.338) -/
def pseudoTags : List Str :=
  [kCommandLine, kKeep, kPath, kSetup, kType, kVersion, kVersionBang, kVersionExpr, kWarn]

/-! ## data -/

structure Decl where
  name : Str
  version : Str
  flavor : Str
deriving DecidableEq, Repr

/-- one flavor group of a chain file: `tag` is assigned to `version` of `name` for `flavor` -/
structure TagRec where
  tag : Str
  name : Str
  flavor : Str
  version : Str
deriving DecidableEq, Repr

structure Stack where
  decls : List Decl
  tags : List TagRec
deriving DecidableEq, Repr

/-- the stacks in EUPS_PATH order -/
abbrev Db := List Stack

/-- what a lookup returns: version, flavor and the index of the stack on the path -/
structure Prod where
  version : Str
  flavor : Str
  stack : Nat
deriving DecidableEq, Repr

/-- `Eups.version_cmp` and `Eups.version_match` (owned by C10) -/
structure Ord where
  cmp : Str → Str → Int
  vmatch : Str → Str → Bool

/-- the order properties the `latest` / expression theorems need, on the names satisfying `P`
(C10 proves them for the conventional names; `Lemmas/VroC10.lean`) -/
structure GoodOrdOn (P : Str → Prop) (cmp : Str → Str → Int) : Prop where
  refl : ∀ a, P a → cmp a a ≤ 0
  flip : ∀ a b, P a → P b → 0 ≤ cmp a b → cmp b a ≤ 0
  trans : ∀ a b c, P a → P b → P c → cmp a b ≤ 0 → cmp b c ≤ 0 → cmp a c ≤ 0

/-- the same on all names -/
abbrev GoodOrd (cmp : Str → Str → Int) : Prop := GoodOrdOn (fun _ => True) cmp

/-! ## the view a lookup has (interface with C07 / D16)

A stack whose cache a fresh process *accepted* is loaded for the flavors the process asked the cache
for (`neededFlavors`); a stack that was rebuilt in this process holds every flavor of the database.
Which of the two happened is decided by the load-versus-rebuild rule (C07's model); here it is an
input, one `Bool` per stack.

Since fix 9143b09 `Eups.__init__` installs the configured fallback flavors before it reads the cache,
so `loaded` = the native flavor and its fallbacks — exactly the flavors the flavor loop of `setup`
visits.  Before it (`…Pinned` below, D16) the list was the native flavor alone. -/

def restrictStack (loaded : List Str) (st : Stack) : Stack :=
  { decls := st.decls.filter (fun d => loaded.contains d.flavor),
    tags := st.tags.filter (fun t => loaded.contains t.flavor) }

def cacheView (loaded : List Str) : List Bool → Db → Db
  | a :: as, st :: rest => (if a then restrictStack loaded st else st) :: cacheView loaded as rest
  | _, rest => rest

/-- the pinned tree (before 9143b09): an accepted cache is read for the native flavor only -/
def cacheViewPinned (native : Str) : List Bool → Db → Db := cacheView [native]

/-- how an `Eups` instance reaches the database -/
inductive Mode where
  | files     -- `Eups(readCache=False)` (what `setup` uses): every lookup reads the files
  | cache     -- `Eups()` and `noCache=False`: every lookup goes through the loaded cache
  | mixed     -- `Eups()` and `noCache=True`: the files, except `latest`, which still uses the cache
deriving DecidableEq, Repr

/-- every version name declared in the database satisfies `P` -/
def DeclIn (P : Str → Prop) (db : Db) : Prop := ∀ st ∈ db, ∀ d ∈ st.decls, P d.version

/-! ## per-stack lookups -/

def declared (st : Stack) (n v f : Str) : Bool :=
  st.decls.any fun d => d.name == n && d.version == v && d.flavor == f

/-- the version a stack's chain file gives for (tag, product, flavor) -/
def tagVersion (st : Stack) (t n f : Str) : Option Str :=
  (st.tags.find? fun r => r.tag == t && r.name == n && r.flavor == f).map (·.version)

/-- the tag is usable in this stack: it points to a version declared *here* for the flavor -/
def tagHere (st : Stack) (t n f : Str) : Option Str :=
  match tagVersion st t n f with
  | some v => if declared st n v f then some v else none
  | none => none

/-- insertion into a list sorted by Python string order (`_cmp_by_verflav`) -/
def insertStr (v : Str) : List Str → List Str
  | [] => [v]
  | x :: xs => if Str.cmp v x < 0 then v :: x :: xs else x :: insertStr v xs

def sortStr : List Str → List Str
  | [] => []
  | x :: xs => insertStr x (sortStr xs)

/-- the versions of `n` declared in the stack for flavor `f`, in the order both
`Database.findProducts` (sorted by version string) and a cache rebuilt from it enumerate them -/
def versionsOf (st : Stack) (n f : Str) : List Str :=
  sortStr ((st.decls.filter fun d => d.name == n && d.flavor == f).map (·.version))

/-- `vers.sort(version_cmp); vers[-1]`: for a comparison that is a total preorder a stable sort
puts last the *latest-listed* of the maximal elements, which is what this fold computes. -/
def lastMaxGo (cmp : Str → Str → Int) (best : Str) : List Str → Str
  | [] => best
  | v :: vs => lastMaxGo cmp (if 0 ≤ cmp v best then v else best) vs

def lastMax (cmp : Str → Str → Int) : List Str → Option Str
  | [] => none
  | v :: vs => some (lastMaxGo cmp v vs)

/-! ## path-order lookups -/

/-- first stack (index counted from `i`) for which `f` answers -/
def firstStack {α : Type} (f : Stack → Option α) : Nat → Db → Option (Nat × α)
  | _, [] => none
  | i, st :: rest =>
    match f st with
    | some a => some (i, a)
    | none => firstStack f (i + 1) rest

/-- explicit version: the first stack on the path declaring (name, version, flavor) -/
def lookupVersion (db : Db) (n v f : Str) : Option Prod :=
  (firstStack (fun st => if declared st n v f then some () else none) 0 db).map
    fun (i, _) => ⟨v, f, i⟩

/-- tag entry: the first stack carrying the tag on a version declared there for the flavor -/
def lookupTag (db : Db) (t n f : Str) : Option Prod :=
  (firstStack (fun st => tagHere st t n f) 0 db).map fun (i, v) => ⟨v, f, i⟩

/-- `_findLatestProduct`: the maximum over *all* stacks; a later stack wins only when strictly newer -/
def latestGo (cmp : Str → Str → Int) (n f : Str) : Nat → Option Prod → Db → Option Prod
  | _, out, [] => out
  | i, out, st :: rest =>
    match lastMax cmp (versionsOf st n f) with
    | none => latestGo cmp n f (i + 1) out rest
    | some v =>
      match out with
      | none => latestGo cmp n f (i + 1) (some ⟨v, f, i⟩) rest
      | some o =>
        if 0 < cmp v o.version then latestGo cmp n f (i + 1) (some ⟨v, f, i⟩) rest
        else latestGo cmp n f (i + 1) out rest

def lookupLatest (cmp : Str → Str → Int) (db : Db) (n f : Str) : Option Prod :=
  latestGo cmp n f 0 none db

/-- `_findProductsByExpr`: the satisfying versions, unique by version name, in path order -/
def exprCandsGo (vm : Str → Str → Bool) (n f x : Str) : Nat → List (Nat × Str) → Db → List (Nat × Str)
  | _, acc, [] => acc
  | i, acc, st :: rest =>
    let vs := (versionsOf st n f).filter fun v => vm v x
    let acc' := vs.foldl (fun a v => if a.any (fun c => c.2 == v) then a else a ++ [(i, v)]) acc
    exprCandsGo vm n f x (i + 1) acc' rest

def exprCands (vm : Str → Str → Bool) (db : Db) (n f x : Str) : List (Nat × Str) :=
  exprCandsGo vm n f x 0 [] db

/-- `_selectPreferredProduct(products, ["latest"])` -/
def selectLatest (cmp : Str → Str → Int) (f : Str) (cands : List (Nat × Str)) : Option Prod :=
  match lastMax cmp (cands.map (·.2)) with
  | none => none
  | some m => (cands.find? fun c => c.2 == m).map fun c => ⟨c.2, f, c.1⟩

def lookupExpr (o : Ord) (db : Db) (n f x : Str) : Option Prod :=
  selectLatest o.cmp f (exprCands o.vmatch db n f x)

/-! ## `findProductFromVRO` -/

deriving instance DecidableEq for Except

inductive Err where
  | badExpr        -- `isLegalRelativeVersion` raised EupsException ("= 1.0": did you mean '=='?)
  | indexError     -- a bare `warn` entry: `int(vroTag.split(":")[1])`
  | typeError      -- `vroReason[0]` on `None` in the flavor loop
  | valueError     -- `vro.index(..)` of an absent entry / `t.split(":")` with two colons
  | unboundLocal   -- `where` used before assignment in selectVRO (-T without -t on a VRO without version entries)
  | runtimeError   -- selectVRO: both a command-line VRO and a tag; no usable dictionary entry
  | keyError
  | outOfFuel      -- never produced (`resolve_fuel_enough`); kept distinct from every real result
  | unsupported    -- an entry outside the model (`setup`, qualified tags, `file:` tags)
deriving DecidableEq, Repr

def hasInfix (needle : Str) : Str → Bool
  | [] => needle.isEmpty
  | c :: cs => needle.isPrefixOf (c :: cs) || hasInfix needle cs

def skipSpaces : Str → Str
  | [] => []
  | c :: cs => if Str.isSpace c then skipSpaces cs else c :: cs

/-- `_bad_relop_re = ^\s*=\s+\S+` -/
def badRelop (v : Str) : Bool :=
  match skipSpaces v with
  | 61 :: c :: rest => Str.isSpace c && !(skipSpaces (c :: rest)).isEmpty
  | _ => false

/-- `isLegalRelativeVersion`: `<=?|>=?|==` occurs somewhere -/
def isExpr (v : Str) : Except Err Bool :=
  if v.contains 60 || v.contains 62 || hasInfix [61, 61] v then .ok true
  else if badRelop v then .error .badExpr
  else .ok false

def isVT (e : Str) : Bool := e == kVersion || e == kVersionBang || e == kVersionExpr

def allDigits (s : Str) : Bool := !s.isEmpty && s.all Str.isDigit

/-- `^warn(:\d+)?$` -/
def isWarn (e : Str) : Bool :=
  e == kWarn || (kWarnColon.isPrefixOf e && allDigits (e.drop kWarnColon.length))

/-- `^warn:(\d+)$` -/
def warnLevel (e : Str) : Option Nat :=
  if kWarnColon.isPrefixOf e && allDigits (e.drop kWarnColon.length) then
    some (Str.toNat (e.drop kWarnColon.length)) else none

/-- `^type:(.+)$` -/
def isType (e : Str) : Bool := kTypeColon.isPrefixOf e && kTypeColon.length < e.length

/-- `SETUP_<NAME> = "name version -f flavor -Z dir"` as `findSetupVersion` parses it; `stack` is the
index of `dir` on EUPS_PATH (`none`: no `-Z`, or a directory that is not a stack on the path) -/
structure SetupRec where
  version : Str
  flavor : Str
  stack : Option Nat
deriving DecidableEq, Repr

structure Req where
  name : Str
  version : Option Str            -- the `version` argument (None or "" = not named)
  vexpr : Option Str              -- the `versionExpr` argument (table files: `1.0 [>= 1.0]`)
  depth : Nat                     -- recursionDepth
  flavor : Str
  ignoreVersions : Bool
  /-- `alreadySetupProducts.get(name)`: the product and `reason[0]` of the reason it was chosen for
  (`none` = set up by an earlier command) -/
  already : Option (Prod × Option Str)
  /-- what `findSetupVersion(name)` reads from `SETUP_<NAME>` (`none` = not set up); consulted by the
  `setup` pseudo-tag only -/
  setupEnv : Option SetupRec := none
deriving Repr

structure Ctx where
  ord : Ord
  db : Db
  dbLatest : Db
  /-- registered global tags (hooks.config.Eups.globalTags); `latest` is always registered -/
  globalTags : List Str
  /-- registered user tags (hooks.config.Eups.userTags and the user's tag cache), unqualified names -/
  userTags : List Str := []
  /-- the directories that exist, for `LOCAL:<dir>` versions (`os.path.exists`) -/
  dirs : List Str := []

/-- `Tags.isRecognized` of an unqualified name -/
def Ctx.recognized (C : Ctx) (e : Str) : Bool :=
  C.globalTags.contains e || e == kLatest || pseudoTags.contains e || C.userTags.contains e

/-- the name under which the chain records of a tag entry are kept (`str(Tags.getTag(e))`): a user tag,
spelled `mine` or `user:mine`, is kept as `user:mine`; a global tag spelled `global:t` or `:t` as `t`.
`none`: the entry is not a recognised tag. -/
def Ctx.tagKey (C : Ctx) (e : Str) : Option Str :=
  if !e.contains colon then
    if C.globalTags.contains e || e == kLatest || pseudoTags.contains e then some e
    else if C.userTags.contains e then some (kUserColon ++ e)
    else none
  else if kUserColon.isPrefixOf e && !(e.drop kUserColon.length).contains colon then
    if C.userTags.contains (e.drop kUserColon.length) then some e else none
  else if kGlobalColon.isPrefixOf e && !(e.drop kGlobalColon.length).contains colon then
    if C.globalTags.contains (e.drop kGlobalColon.length) then some (e.drop kGlobalColon.length) else none
  else
    match e with
    | 58 :: t => if !t.contains colon && C.globalTags.contains t then some t else none
    | _ => none

/-- the two views of a lookup, from the full database, the mode, the flavors the process reads from an
accepted cache (native + fallbacks) and the per-stack load outcome -/
def mkCtx (o : Ord) (globalTags : List Str) (full : Db) (m : Mode) (loaded : List Str) (accepted : List Bool) : Ctx :=
  match m with
  | .files => { ord := o, db := full, dbLatest := full, globalTags := globalTags }
  | .cache => { ord := o, db := cacheView loaded accepted full, dbLatest := cacheView loaded accepted full,
                globalTags := globalTags }
  | .mixed => { ord := o, db := full, dbLatest := cacheView loaded accepted full, globalTags := globalTags }

/-- the same context with user tags registered and the given directories existing -/
def Ctx.withExtras (C : Ctx) (userTags dirs : List Str) : Ctx := { C with userTags := userTags, dirs := dirs }

/-- the same on the pinned tree (D16) -/
def mkCtxPinned (o : Ord) (globalTags : List Str) (full : Db) (m : Mode) (native : Str) (accepted : List Bool) : Ctx :=
  mkCtx o globalTags full m [native] accepted

inductive Outcome where
  | skip                                   -- `continue`
  | abort                                  -- `break` with no product
  | hit (p : Prod) (reason : Str)          -- `break` with a product; `reason` = `vroReason[0]`
deriving DecidableEq, Repr

/-- the effective version (Python truthiness: `None` and `""` are "not named") -/
def Req.named (r : Req) : Option Str :=
  match r.version with
  | some v => if v.isEmpty || r.ignoreVersions then none else some v
  | none => none

/-- the expression lookup of a `versionExpr` entry (l.856-863): `x` is the `versionExpr` in force -/
def exprPart (C : Ctx) (r : Req) (x : Option Str) : Except Err (Option Prod) :=
  match x with
  | none => .ok none
  | some x =>
    if x.isEmpty then .ok none
    else
      match isExpr x with
      | .error err => .error err
      | .ok true => .ok (lookupExpr C.ord C.db r.name r.flavor x)
      | .ok false => .ok none

/-- `LOCAL:<dir>` (l.895-902): `Product(name, version)` — no flavor, no database; the stack index is
the length of the path ("none of the stacks") -/
def localProd (C : Ctx) (v : Str) : Option Prod :=
  if kLocal.isPrefixOf v && C.dirs.contains (v.drop kLocal.length) then some ⟨v, [], C.db.length⟩ else none

/-- a `version` / `version!` / `versionExpr` entry for a request naming `v` (l.840-912).

The code threads one piece of state through the loop: `versionExpr = version` is executed at a
`versionExpr` entry when the requested version is an expression.  The assignment is idempotent and
`versionExpr` is read only at `versionExpr` entries, directly after it, so the state is a function of
the request and the loop body is modelled without it. -/
def lookupVT (C : Ctx) (r : Req) (e : Str) (post : List Str) (v : Str) : Except Err Outcome :=
  match isExpr v with
  | .error err => .error err
  | .ok ex =>
    if ex && e != kVersionExpr then
      -- an expression at a `version` entry: wait for `versionExpr` if there is one
      if post.contains kVersionExpr then .ok .skip else .ok .abort
    else
      match exprPart C r (if e == kVersionExpr then (if ex then some v else r.vexpr) else none) with
      | .error err => .error err
      | .ok (some p) => .ok (.hit p kVersionExpr)
      | .ok none =>
        -- "If we failed to find a versionExpr, we can still use the explicit version"
        match lookupVersion C.db r.name v r.flavor with
        | some p => .ok (.hit p (if r.depth == 0 then kCommandLine else kVersion))
        | none =>
          -- l.895-902: no stack declares it, but it names a directory that exists
          match localProd C v with
          | some p => .ok (.hit p (if r.depth == 0 then kCommandLine else kPathFromVersion))
          | none => if post.any isVT then .ok .skip else .ok .abort   -- never falls through to tags

/-- `findSetupProduct(name)` as `_findTaggedProduct` uses it for the `setup` pseudo-tag (l.1142-1147):
the version `SETUP_<NAME>` names, looked up in the one stack its `-Z` names (`findProduct(..,
noCache=False)`: through the cache when the instance has one) for the flavor its `-f` names; discarded
when that is not the flavor asked for.  A `LOCAL:` version is taken as it stands. -/
def lookupSetup (C : Ctx) (r : Req) : Option Prod :=
  match r.setupEnv with
  | none => none
  | some s =>
    if s.flavor != r.flavor then none
    else if kLocal.isPrefixOf s.version then some ⟨s.version, s.flavor, s.stack.getD C.db.length⟩
    else
      match s.stack with
      | none => none
      | some i =>
        match C.dbLatest[i]? with
        | some st => if declared st r.name s.version s.flavor then some ⟨s.version, s.flavor, i⟩ else none
        | none => none

/-- a tag entry (`latest` and `setup` included); `key` = `C.tagKey e`, the name the chain records carry -/
def lookupTagEntry (C : Ctx) (r : Req) (e key : Str) : Outcome :=
  match (if key == kLatest then lookupLatest C.ord.cmp C.dbLatest r.name r.flavor
         else if key == kSetup then lookupSetup C r
         else lookupTag C.db key r.name r.flavor) with
  | some p => .hit p e
  | none => .skip

/-- an ordinary tag entry: a registered global tag other than `latest` that none of the earlier
branches of the loop body intercepts -/
def isPlainTag (C : Ctx) (e : Str) : Bool :=
  C.globalTags.contains e && e != kLatest && !pseudoTags.contains e && !isWarn e && !e.contains colon

/-- The body of the `for i, vroTag in enumerate(vro)` loop for one entry; `post = vro[i+1:]`. -/
def lookupEntry (C : Ctx) (r : Req) (e : Str) (post : List Str) : Except Err Outcome :=
  if e == kPath then .ok .skip                        -- `vroTag in ("path",)` (a substring test before fix dce50ce, D33)
  else if 0 < r.depth && e == kKeep then
    match r.already with
    | some (p, _) => .ok (.hit p kKeep)
    | none => .ok .skip
  else if e == kCommandLine then
    match r.already with
    | some (p, some rt) => if rt == kCommandLine then .ok (.hit p kCommandLine) else .ok .skip
    | _ => .ok .skip
  else if isVT e then
    match r.named with
    | none => .ok .skip
    | some v => lookupVT C r e post v
  else if isWarn e then
    if e == kWarn then .error .indexError else .ok .skip
  else
    match C.tagKey e with
    | some key =>                                      -- `self.tags.isRecognized(vroTag)`
      -- with `ignore_versions` the `findProduct` inside `findSetupProduct` turns into `findPreferredProduct`
      -- (the pre-VRO API reading the instance's own preferred tags): outside the model
      if key == kSetup && r.ignoreVersions && r.setupEnv.isSome then .error .unsupported
      else .ok (lookupTagEntry C r e key)
    | none =>
      if e.contains colon then
        if isType e then .ok .skip else .error .unsupported   -- `file:`, other tag groups
      else .ok .skip                                   -- "Impossible entry on the VRO"

/-- a product, the reason reported for it, and the VRO entry at which the loop stopped (`vroTag0`) -/
structure Hit where
  prod : Prod
  reason : Str
  entry : Str
deriving DecidableEq, Repr

/-- the loop: stop at the first entry that does not say `continue` -/
def walk (C : Ctx) (r : Req) : List Str → Except Err (Option Hit)
  | [] => .ok none
  | e :: post =>
    match lookupEntry C r e post with
    | .error err => .error err
    | .ok .skip => walk C r post
    | .ok .abort => .ok none
    | .ok (.hit p reason) => .ok (some ⟨p, reason, e⟩)

def idxOf (e : Str) : List Str → Nat
  | [] => 0
  | x :: xs => if x == e then 0 else idxOf e xs + 1

/-- l.974-990: a product set up earlier *by this command* for a reason that stands earlier on the VRO
keeps its place ("old vro tag takes priority") -/
def applyAlready (r : Req) (vro : List Str) (h : Hit) : Hit :=
  match r.already with
  | some (op, some ot) =>
    if vro.contains ot && idxOf ot vro < idxOf h.entry vro then ⟨op, ot, h.entry⟩ else h
  | _ => h

/-- `findProductFromVRO` -/
def find (C : Ctx) (r : Req) (vro : List Str) : Except Err (Option Hit) :=
  match walk C r vro with
  | .error err => .error err
  | .ok none => .ok none
  | .ok (some h) => .ok (some (applyAlready r vro h))

/-! ## the flavor loop of `Eups.setup` (l.1872-1918) -/

/-- l.1887-1889: at the top level an explicitly named version is the only acceptable answer -/
def acceptableB (r : Req) (h : Hit) : Except Err Bool :=
  match r.version with
  | none => .ok true
  | some v =>
    if !v.isEmpty && r.depth == 0 then
      match isExpr v with
      | .error e => .error e
      | .ok ex => .ok (ex || h.prod.version == v)
    else .ok true

/-- the `while not product and vro` loop for one flavor.  `none` = try the next flavor. -/
def resolveFlavor (C : Ctx) (r : Req) (keep : Bool) : Nat → List Str → Except Err (Option Hit)
  | 0, _ => .error .outOfFuel
  | fuel + 1, vro =>
    if vro.isEmpty then .ok none
    else
      match find C r vro with
      | .error e => .error e
      | .ok found =>
        -- "We couldn't find it, but maybe it's already setup"
        let cand : Option (Hit × Bool) :=
          match found, r.already with
          | some h, _ => some (h, true)
          | none, some (p, _) =>
            if !keep && some p.version != r.version then none else some (⟨p, [], []⟩, false)
          | none, none => none
        match cand with
        | none => .ok none
        | some (h, viaFind) =>
          match acceptableB r h with
          | .error e => .error e
          | .ok true => .ok (some h)
          | .ok false =>
            -- "Maybe we'll find the product again further down the VRO"
            if !viaFind then .error .typeError
            else if !vro.contains h.reason then .error .valueError
            else resolveFlavor C r keep fuel (vro.drop (idxOf h.reason vro + 1))

/-- `for fallbackFlavor in [native] + fallbacks` -/
def resolve (C : Ctx) (r : Req) (keep : Bool) (vro : List Str) : List Str → Except Err (Option Hit)
  | [] => .ok none
  | fl :: rest =>
    match resolveFlavor C { r with flavor := fl } keep (vro.length + 1) vro with
    | .error e => .error e
    | .ok (some h) => .ok (some h)
    | .ok none => resolve C r keep vro rest

/-! ## `selectVRO` -/

inductive VroVal where
  | flat (l : List Str)
  | byDbz (d : List (Str × List Str))
deriving Repr

structure VroCfg where
  vroDict : List (Str × VroVal)   -- `self._vroDict` (hooks.config.Eups.VRO, values split)
  userVRO : Bool                  -- `Eups(vro=...)`
  keep : Bool
  exact : Bool                    -- `self.exact_version` on entry
  globalTags : List Str
  cmdTags : List Str              -- `self.commandLineTagNames` on entry (empty for a fresh instance)
  prevPreferred : List Str        -- `self.preferredTags` on entry
deriving Repr

structure VroArgs where
  tags : List Str                 -- `-t` (None and [] alike)
  productDir : Bool               -- `productDir and productDir != 'none'`
  versionName : Bool              -- `versionName` is truthy
  dbz : Option Str
  inexact : Bool
  postTags : List Str             -- `-T`
deriving Repr

def VroCfg.recognized (c : VroCfg) (e : Str) : Bool :=
  c.globalTags.contains e || e == kLatest || pseudoTags.contains e

/-- `Tags.getTag(v0).isGlobal()` for an unqualified recognised name -/
def VroCfg.isGlobal (c : VroCfg) (e : Str) : Bool := c.globalTags.contains e || e == kLatest

def lookupKey {α : Type} (k : Str) : List (Str × α) → Option α
  | [] => none
  | (k', v) :: rest => if k' == k then some v else lookupKey k rest

def insertAt (l : List Str) (i : Nat) (xs : List Str) : List Str := l.take i ++ xs ++ l.drop i

/-- index after the last entry satisfying `p` (`where = i + 1` in a loop), `none` if there is none -/
def afterLast (p : Str → Bool) : Nat → List Str → Option Nat
  | _, [] => none
  | i, x :: xs =>
    match afterLast p (i + 1) xs with
    | some j => some j
    | none => if p x then some (i + 1) else none

/-- l.3686-3697: drop repeated entries; every `warn` entry is kept, `warn` becoming `warn:1` -/
def dedupe : List Str → List Str → List Str
  | _, [] => []
  | seen, e :: rest =>
    if seen.contains e then dedupe seen rest
    else if isWarn e then (if (warnLevel e).isSome then e else kWarn1) :: dedupe seen rest
    else e :: dedupe (e :: seen) rest

def natToStr (n : Nat) : Str := (Nat.toDigits 10 n).map Char.toNat

/-- `__mergeWarnings`: a run of consecutive `warn:N` becomes one `warn:min` -/
def mergeWarnings : Option Nat → List Str → List Str
  | none, [] => []
  | some m, [] => [kWarnColon ++ natToStr m]
  | pend, e :: rest =>
    match warnLevel e with
    | some n => mergeWarnings (some (match pend with | some m => min m n | none => n)) rest
    | none =>
      (match pend with | some m => [kWarnColon ++ natToStr m] | none => []) ++ e :: mergeWarnings none rest

def splitColon0 (e : Str) : Str := e.takeWhile (· != colon)

/-- does `makeVroExact` move this entry to the end? -/
def movedByExact (c : VroCfg) (cmdTags : List Str) (e : Str) : Bool :=
  let v0 := splitColon0 e
  !c.recognized v0 || (!cmdTags.contains v0 && c.isGlobal v0)

/-- keep the first occurrence of each entry (`if not tagVroEntries.count(v): tagVroEntries.append(v)`) -/
def uniqFirst : List Str → List Str
  | [] => []
  | x :: xs => x :: (uniqFirst xs).filter (· != x)

/-- `makeVroExact` (l.3753): tags that are not command-line tags go to the end, behind a `warn:1` -/
def makeVroExact (c : VroCfg) (cmdTags : List Str) (vro : List Str) : List Str :=
  if c.userVRO then vro else
  let moved := uniqFirst (vro.filter (movedByExact c cmdTags))
  let kept := vro.filter (fun e => !movedByExact c cmdTags e)
  -- `movedTags`: some kept entry stands behind a moved one
  let movedTags := (vro.dropWhile (fun e => !movedByExact c cmdTags e)).any
                      (fun e => !movedByExact c cmdTags e)
  if moved.isEmpty then kept
  else
    let hasWarn01 := kept.any fun x => (kWarnColon ++ [48]).isPrefixOf x || (kWarnColon ++ [49]).isPrefixOf x
    kept ++ (if movedTags && !hasWarn01 then [kWarn1] else []) ++ moved

def countColons (e : Str) : Nat := (e.filter (· == colon)).length

/-- one tag of `_kindlySetPreferredTags`: `true` = accepted, `false` = "not okay" -/
def kindlyOne (c : VroCfg) (t : Str) : Except Err Bool :=
  if kFileColon.isPrefixOf t then .error .unsupported
  else if t.contains colon && t.getLast? != some colon then
    -- `re.search(r":.+$", t)`; `tbase, suffix = t.split(":")`
    if countColons t != 1 then .error .valueError
    else .ok (c.recognized (splitColon0 t))
  else if t.contains colon then .ok false        -- trailing colon: parses to an unknown group
  else .ok (c.recognized t)

def kindlyGo (c : VroCfg) : List Str → Except Err (List Str × Bool)
  | [] => .ok ([], false)
  | t :: rest =>
    match kindlyOne c t with
    | .error e => .error e
    | .ok ok =>
      match kindlyGo c rest with
      | .error e => .error e
      | .ok (l, bad) => .ok (if ok then (t :: l, bad) else (l, true))

/-- `_kindlySetPreferredTags(tags)` in its non-strict form; returns the new `preferredTags`.
When some tag is refused, `tags = list(filter(self.tags.isRecognized, tags))` also drops the
qualified entries (`type:exact`, `warn:1`): they parse to a group that does not exist. -/
def kindly (c : VroCfg) (tags : List Str) : Except Err (List Str) :=
  match kindlyGo c tags with
  | .error e => .error e
  | .ok (ok, bad) =>
    let ok' := if bad then ok.filter (fun t => !t.contains colon) else ok
    if ok'.isEmpty then .ok c.prevPreferred else .ok ok'

structure VroOut where
  vro : List Str
  exact : Bool                    -- `self.exact_version` afterwards
  cmdTags : List Str
  /-- `self._vroDict` afterwards: `keep` and the tags are inserted into the dictionary's own list
  (`self._vro = vro` aliases it), so a second `selectVRO` on the same instance starts from there -/
  dict' : List (Str × VroVal)
deriving Repr

def setKey {α : Type} (k : Str) (v : α) : List (Str × α) → List (Str × α)
  | [] => []
  | (k', v') :: rest => if k' == k then (k, v) :: rest else (k', v') :: setKey k v rest

/-- l.3598-3646: which list of the dictionary is used, and how its in-place modification is stored
back (`tags` = the -t tags in force) -/
def chooseBase (c : VroCfg) (a : VroArgs) (tags : List Str) :
    Except Err (List Str × (List Str → List (Str × VroVal))) :=
  let keys := c.vroDict.map (·.1)
  let vroTag0 : Option Str := if c.userVRO then some kCommandLine else tags.find? (fun t => keys.contains t)
  let vroTag1 : Str := match vroTag0 with
    | some t => t
    | none => if a.productDir then kPath else if a.versionName then kCommandLine else kDefault
  let vroTag : Option Str :=
    if c.userVRO then some vroTag1
    else if keys.contains vroTag1 then some vroTag1
    else if keys.contains kDefault then some kDefault
    else none
  match vroTag with
  | none => .error .runtimeError
  | some vroTag =>
    match lookupKey vroTag c.vroDict with
    | none => .error .keyError
    | some (.flat l) => .ok (l, fun l' => setKey vroTag (VroVal.flat l') c.vroDict)
    | some (.byDbz d) =>
      match (match a.dbz with | some z => (lookupKey z d).map (fun l => (z, l)) | none => none) with
      | some (z, l) => .ok (l, fun l' => setKey vroTag (VroVal.byDbz (setKey z l' d)) c.vroDict)
      | none =>
        match lookupKey kDefault d with
        | some l => .ok (if a.versionName then kCommandLine :: l else l,
                         fun l' => setKey vroTag (VroVal.byDbz (setKey kDefault l' d)) c.vroDict)
        | none => .error .runtimeError

/-- `where` after the loop of l.3654-3656 (`none` when there are no -t tags: the loop is not run) -/
def pretagPos (v1 tags : List Str) : Option Nat :=
  if tags.isEmpty then none
  else some ((afterLast (fun v => v == kCommandLine || isType v) 0 v1).getD 0)

/-- the -t tags go behind the last `commandLine` / `type:*` entry -/
def withPretags (v1 tags : List Str) : List Str :=
  match pretagPos v1 tags with
  | some w => insertAt v1 w tags
  | none => v1

/-- l.3648-3682: `keep` at the head, the -t tags behind the last `commandLine` / `type:*` entry, the
-T tags behind the last version-type entry (`where` keeps its earlier value when there is none, and
is unbound when there were no -t tags either) -/
def placeTags (keep : Bool) (base tags postTags : List Str) : Except Err (List Str) :=
  let v1 := if keep then kKeep :: base else base
  if postTags.isEmpty then .ok (withPretags v1 tags)
  else
    match afterLast isVT 0 (withPretags v1 tags), pretagPos v1 tags with
    | some w, _ => .ok (insertAt (withPretags v1 tags) w postTags)
    | none, some w => .ok (insertAt (withPretags v1 tags) w postTags)
    | none, none => .error .unboundLocal

/-- l.3683-3707: duplicates out, warnings merged, exact / inexact processing -/
def cleanVro (c : VroCfg) (cmdTags : List Str) (inexact : Bool) (v3 : List Str) : List Str :=
  let v4 := mergeWarnings none (dedupe [] v3)
  if c.userVRO then v4
  else
    let x := if c.exact then makeVroExact c cmdTags v4 else v4
    if inexact then x.filter (· != kTypeExact) else x

def selectVRO (c : VroCfg) (a : VroArgs) : Except Err VroOut :=
  if c.userVRO && !a.tags.isEmpty then .error .runtimeError
  else
    let tags := if c.userVRO then [] else a.tags
    let cmdTags := if tags.isEmpty then c.cmdTags else tags
    match chooseBase c a tags with
    | .error e => .error e
    | .ok (base, store) =>
      match placeTags c.keep base tags a.postTags with
      | .error e => .error e
      | .ok v3 =>
        match kindly c (cleanVro c cmdTags a.inexact v3) with
        | .error e => .error e
        | .ok pref =>
          -- `findProductFromVRO("")` runs the `type:*` entries: `type:exact` switches exact mode on; the
          -- rewrite of `_vro` it triggers is overwritten by `self._vro = self.preferredTags`
          .ok { vro := pref, exact := c.exact || pref.contains kTypeExact, cmdTags := cmdTags, dict' := store v3 }

/-- `eups vro [-t..] [-T..] product [version]`: `EupsCmd.createEups` has already called
`selectVRO(tag, productDir, None, dbz)` on the instance before `VroCmd.execute` calls it with all
the arguments; the second call sees the state the first one left. -/
def selectVROTwice (c : VroCfg) (a : VroArgs) : Except Err VroOut :=
  match selectVRO c { a with versionName := false, inexact := false, postTags := [] } with
  | .error e => .error e
  | .ok o1 =>
    selectVRO { c with vroDict := o1.dict', exact := o1.exact, cmdTags := o1.cmdTags, prevPreferred := o1.vro } a

/-! ## command-line glue: `setup [-t..] [-T..] [-c] [-e] [-z db] product [version]` (setupcmd.py l.222-253) and
`eups vro` with the same arguments (cmd.py `VroCmd.execute`), which is documented to "print the VRO to use if
issuing the setup command with the same arguments" -/

inductive CliTok where
  | tag (t : Str)          -- `-t t`
  | postTag (t : Str)      -- `-T t`
  | current                -- `-c`
deriving DecidableEq, Repr

def kNone : Str := [78, 111, 110, 101]  -- 'None'

/-- `opts.tag`: the `-t` values in command-line order (optparse `append`) -/
def cliTags (l : List CliTok) : List Str :=
  l.filterMap fun k => match k with | .tag t => some t | _ => none

/-- `opts.postTag` when `-c` is an optparse *callback* that appends `current` where it stands (setupcmd.py
`append_current`; `eups vro` too since fix D91) -/
def cliPostInOrder (l : List CliTok) : List Str :=
  l.filterMap fun k => match k with | .postTag t => some t | .current => some kCurrent | .tag _ => none

/-- `opts.postTag` of `eups vro` before fix D91: `-c` was a flag, `current` appended after all `-T` values -/
def cliPostFlagLast (l : List CliTok) : List Str :=
  (l.filterMap fun k => match k with | .postTag t => some t | _ => none) ++
    (if l.contains .current then [kCurrent] else [])

/-- hooks.config.Eups.defaultTags -/
structure DefaultTags where
  pre : List Str
  post : List Str
deriving Repr

/-- `Eups._processDefaultTags(opts)` (l.74-102): `-t None` / `-t ""` mean "no tag, and no default tags
either"; default tags are used when neither -t nor -T is given -/
def processDefaultTags (userVRO : Bool) (d : DefaultTags) (tags postTags : List Str) : List Str × List Str :=
  if tags == [kNone] || tags == [[]] then ([], postTags)
  else if userVRO then (tags, postTags)
  else if tags.isEmpty && postTags.isEmpty then (d.pre, d.post)
  else (tags, postTags)

structure CliCmd where
  toks : List CliTok
  version : Bool             -- a version argument follows the product
  exact : Bool               -- `-e`
  dbz : Option Str           -- `-z`
deriving Repr

def cliArgs (k : CliCmd) (tags post : List Str) (version : Bool) : VroArgs :=
  { tags := tags, productDir := false, versionName := version, dbz := k.dbz, inexact := false, postTags := post }

/-- the VRO `setup` resolves with: default tags first, then one `selectVRO` on the fresh instance -/
def setupCmdVro (c : VroCfg) (d : DefaultTags) (k : CliCmd) : Except Err VroOut :=
  let tp := processDefaultTags c.userVRO d (cliTags k.toks) (cliPostInOrder k.toks)
  selectVRO { c with exact := k.exact } (cliArgs k tp.1 tp.2 k.version)

/-- `eups vro` (with fixes D90, D91): default tags first; `createEups` calls `selectVRO(tag, None, None, dbz)` on
the instance, `execute` calls it again with all the arguments (`selectVROTwice`) -/
def vroCmd (c : VroCfg) (d : DefaultTags) (k : CliCmd) : Except Err VroOut :=
  let tp := processDefaultTags c.userVRO d (cliTags k.toks) (cliPostInOrder k.toks)
  selectVROTwice { c with exact := k.exact } (cliArgs k tp.1 tp.2 k.version)

/-- `eups vro` on the pinned tree: `createEups` ran `selectVRO` with the *raw* `-t` values (so `-t None` put
`None` into the dictionary's list) before `_processDefaultTags` (D90), and `-c` was appended last (D91) -/
def vroCmdPinned (c : VroCfg) (d : DefaultTags) (k : CliCmd) : Except Err VroOut :=
  let raw := cliTags k.toks
  let c0 := { c with exact := k.exact }
  match selectVRO c0 (cliArgs k raw [] false) with
  | .error e => .error e
  | .ok o1 =>
    let tp := processDefaultTags c.userVRO d raw (cliPostFlagLast k.toks)
    selectVRO { c0 with vroDict := o1.dict', exact := o1.exact, cmdTags := o1.cmdTags, prevPreferred := o1.vro }
      (cliArgs k tp.1 tp.2 k.version)

/-! ## the VRO in force for one `setupRequired` / `setupOptional` line (table.py `processArgs`, l.889-945) -/

/-- `vro` = `Eups.getPreferredTags()`; `lineVro` = the words of `--vro`, `lineTags` = the recognised `-t`
tags of the line, `lineKeep` = `-k`.  The result is pushed with `pushStack("vro", ..)` for the
duration of the dependency's setup. -/
def tableLineVro (vro : List Str) (lineVro : Option (List Str)) (lineTags : List Str) (lineKeep : Bool) : List Str :=
  let keep :=
    match lineVro with
    | some v => if v == [kVersionBang] then false else vro.contains kKeep
    | none => lineKeep || vro.contains kKeep
  let base :=
    match lineVro with
    | some v => v
    | none => lineTags ++ vro
  if keep then kKeep :: base else base

/-! ## the lines of one table: `pushStack("vro", requested)` … `popStack("vro")` (table.py l.1010-1025)

The state threaded through the lines is the command's VRO (`Eups.preferredTags`).  For each
`setupRequired` / `setupOptional` line `processArgs` builds the list in force from a *copy* of it
(`getPreferredTags()`), `pushStack` saves another copy and installs the requested list, the
dependency is set up, and `popStack` puts the saved copy back — before a failed required dependency
raises.  So a line's `-k` / `-t` / `--vro` is in force for that line only. -/

structure TableLine where
  name : Str
  version : Option Str
  vexpr : Option Str
  lineVro : Option (List Str)
  lineTags : List Str
  lineKeep : Bool
  optional : Bool
  /-- `alreadySetupProducts.get(name)` when the line is reached -/
  already : Option (Prod × Option Str)
deriving Repr

inductive LineOut where
  | setUp (h : Hit)
  | failed            -- not found, or any exception inside the dependency's setup
deriving DecidableEq, Repr

/-- the outcome of one line when `vro` is the command's VRO at that moment -/
def lineOutcome (C : Ctx) (keep : Bool) (flavors : List Str) (vro : List Str) (l : TableLine) : LineOut :=
  let inForce := tableLineVro vro l.lineVro l.lineTags l.lineKeep
  let r : Req := { name := l.name, version := l.version, vexpr := l.vexpr, depth := 1, flavor := [],
                   ignoreVersions := false, already := l.already }
  match resolve C r keep inForce flavors with
  | .ok (some h) => .setUp h
  | _ => .failed

structure TableRun where
  outs : List LineOut       -- one per line reached
  raised : Bool             -- a required dependency failed: the remaining lines are not reached
  vro : List Str            -- the command's VRO afterwards
deriving Repr

def runTable (C : Ctx) (keep : Bool) (flavors : List Str) : List Str → List TableLine → TableRun
  | vro, [] => ⟨[], false, vro⟩
  | vro, l :: rest =>
    let saved := vro                                   -- pushStack("vro", ..) keeps a copy
    let out := lineOutcome C keep flavors vro l        -- the requested list is in force for this setup only
    let vro' := saved                                  -- popStack("vro")
    if out == .failed && !l.optional then ⟨[out], true, vro'⟩
    else
      let r := runTable C keep flavors vro' rest
      ⟨out :: r.outs, r.raised, r.vro⟩

/-! ## several top-level requests served by ONE `Eups` object (API use; Eups.setup l.1925-1940, l.1995-2060)

The object carries `alreadySetupProducts` (`Dict`: product ↦ (product set up, reason it was chosen for)) from one request
to the next.  A top-level `setup X`:
1. looks `X` up with the dictionary as the previous request left it (so `setup dep 1.0; setup dep` answers 1.0 through the
   `commandLine` entry);
2. then RESETS the dictionary to "what the environment shows, reason unknown" and records `X` with its reason;
3. unsets the version of `X` that is set up, with the dependencies of its table; sets `X` up;
4. runs the table: every line is resolved with the dictionary entry of its product — after the reset that is
   (what is set up, no reason), so nothing an earlier, finished request chose for a reason can outrank what the VRO
   designates now (`applyAlready` only acts on entries that carry a reason).
`unsetup X` touches the environment only. -/

abbrev Dict := List (Str × (Prod × Option Str))
abbrev EnvS := List (Str × Prod)

def assocGet {α : Type} (k : Str) : List (Str × α) → Option α
  | [] => none
  | (k', v) :: rest => if k' == k then some v else assocGet k rest

def assocSet {α : Type} (k : Str) (v : α) (l : List (Str × α)) : List (Str × α) :=
  (k, v) :: l.filter (fun kv => kv.1 != k)

def assocDel {α : Type} (k : Str) (l : List (Str × α)) : List (Str × α) := l.filter (fun kv => kv.1 != k)

/-- one `setupRequired` / `setupOptional` line of a table, without the bookkeeping input of `TableLine` -/
structure LineSpec where
  name : Str
  version : Option Str
  vexpr : Option Str
  lineVro : Option (List Str)
  lineTags : List Str
  lineKeep : Bool
  optional : Bool
deriving Repr

structure HistCmd where
  name : Str                    -- the product named
  version : Option Str
  lines : List LineSpec         -- the table of that product (the same for each of its versions)
  unsetup : Bool
deriving Repr

structure HistState where
  env : EnvS                    -- `SETUP_<NAME>`: what is set up
  dict : Dict                   -- `alreadySetupProducts`
deriving Repr

inductive CmdOut where
  | ok (top : Prod) (raised : Bool)      -- the product chosen; `raised`: a required dependency failed
  | failed                               -- nothing found for the product named / not set up / an exception in the lookup
deriving DecidableEq, Repr

/-- `getSetupProducts()` entered with "reason unknown" -/
def resetDict (env : EnvS) : Dict := env.map fun kv => (kv.1, (kv.2, none))

/-- the lines of a table at depth 1, threading environment and dictionary -/
def histLines (C : Ctx) (keep : Bool) (flavors vro : List Str) : EnvS → Dict → List LineSpec → EnvS × Dict × Bool
  | env, dict, [] => (env, dict, false)
  | env, dict, l :: rest =>
    let tl : TableLine := { name := l.name, version := l.version, vexpr := l.vexpr, lineVro := l.lineVro,
                            lineTags := l.lineTags, lineKeep := l.lineKeep, optional := l.optional,
                            already := assocGet l.name dict }
    match lineOutcome C keep flavors vro tl with
    | .failed => if l.optional then histLines C keep flavors vro env dict rest else (env, dict, true)
    | .setUp h =>
      -- l.1995-2009: the version already set up is left alone (and nothing is recorded)
      match assocGet l.name env with
      | some sp =>
        if sp.version == h.prod.version then histLines C keep flavors vro env dict rest
        else histLines C keep flavors vro (assocSet l.name h.prod env) (assocSet l.name (h.prod, some h.reason) dict) rest
      | none =>
        histLines C keep flavors vro (assocSet l.name h.prod env) (assocSet l.name (h.prod, some h.reason) dict) rest

/-- `unsetup X` / `unsetupSetupProduct(X)`: the product and the dependencies its table names leave the environment -/
def unsetEnv (env : EnvS) (name : Str) (lines : List LineSpec) : EnvS :=
  lines.foldl (fun e l => assocDel l.name e) (assocDel name env)

def histStep (C : Ctx) (keep : Bool) (flavors vro : List Str) (s : HistState) (c : HistCmd) : HistState × CmdOut :=
  if c.unsetup then
    match assocGet c.name s.env with
    | none => (s, .failed)
    | some p => ({ s with env := unsetEnv s.env c.name c.lines }, .ok p false)
  else
    let r : Req := { name := c.name, version := c.version, vexpr := none, depth := 0, flavor := [],
                     ignoreVersions := false, already := assocGet c.name s.dict }
    match resolve C r keep vro flavors with
    | .ok (some h) =>
      -- the reset, from the environment as it is when the product has been found
      let dict1 := assocSet c.name (h.prod, some h.reason) (resetDict s.env)
      let env1 := if (assocGet c.name s.env).isSome then unsetEnv s.env c.name c.lines else s.env
      let env2 := assocSet c.name h.prod env1
      let (env3, dict3, raised) := histLines C keep flavors vro env2 dict1 c.lines
      ({ env := env3, dict := dict3 }, .ok h.prod raised)
    | _ => (s, .failed)

def runHistory (C : Ctx) (keep : Bool) (flavors vro : List Str) : HistState → List HistCmd → List CmdOut × HistState
  | s, [] => ([], s)
  | s, c :: rest =>
    let (s1, o) := histStep C keep flavors vro s c
    let (os, s2) := runHistory C keep flavors vro s1 rest
    (o :: os, s2)

/-! ## a small concrete order for the correspondence runs and the examples

Dotted decimal versions (`1.0`, `1.10`, `2.0.1`): components compared as numbers, a proper prefix
first.  This is *not* the model of `version_cmp` (C10 builds that); it agrees with it on the names
the C03 generator uses, which the harness re-checks on every run. -/

def splitDots : Str → Str → List Str
  | cur, [] => [cur.reverse]
  | cur, c :: cs => if c == 46 then cur.reverse :: splitDots [] cs else splitDots (c :: cur) cs

def cmpComps : List Nat → List Nat → Int
  | [], [] => 0
  | [], _ :: _ => -1
  | _ :: _, [] => 1
  | a :: as, b :: bs => if a < b then -1 else if b < a then 1 else cmpComps as bs

def simpleCmp (a b : Str) : Int :=
  cmpComps ((splitDots [] a).map Str.toNat) ((splitDots [] b).map Str.toNat)

def flushTok (cur : Str) : List Str := if cur.isEmpty then [] else [cur.reverse]

/-- tokens of a version expression: operators `< <= > >= ==`, `||`, `&&`, and operands -/
def exprTokens : Str → Str → List Str
  | cur, [] => flushTok cur
  | cur, 60 :: 61 :: cs => flushTok cur ++ [60, 61] :: exprTokens [] cs
  | cur, 62 :: 61 :: cs => flushTok cur ++ [62, 61] :: exprTokens [] cs
  | cur, 61 :: 61 :: cs => flushTok cur ++ [61, 61] :: exprTokens [] cs
  | cur, 124 :: 124 :: cs => flushTok cur ++ [124, 124] :: exprTokens [] cs
  | cur, 38 :: 38 :: cs => flushTok cur ++ [38, 38] :: exprTokens [] cs
  | cur, c :: cs =>
    if Str.isSpace c then flushTok cur ++ exprTokens [] cs
    else if c == 60 || c == 62 then flushTok cur ++ [c] :: exprTokens [] cs
    else exprTokens (c :: cur) cs

def relop (op : Str) (c : Int) : Bool :=
  if op == [60] then c < 0 else if op == [60, 61] then c ≤ 0 else if op == [61, 61] then c == 0
  else if op == [62] then 0 < c else 0 ≤ c

def isRelop (t : Str) : Bool := t == [60] || t == [60, 61] || t == [61, 61] || t == [62] || t == [62, 61]

/-- one term of `version_match`: `.inl b` = return `b` now, `.inr v` = the new `value` -/
def matchTerm (value logop : Option Bool) (rhs : Bool) : Bool ⊕ Option Bool :=
  match logop, value with
  | none, some _ => .inr value                    -- "Expected logical operator": the term is ignored
  | none, none => .inr (some rhs)
  | some false, _ => .inr (some (value == some true && rhs))
  | some true, _ => if value == some true || rhs then .inl true else .inr (some false)

/-- `version_match` on `[op] v (|| [op] v)*` and `&&`, evaluated left to right as the code does;
`logop`: `some true` = or, `some false` = and -/
def matchGo (cmp : Str → Str → Int) (v : Str) : Option Bool → Option Bool → List Str → Bool
  | value, _, [] => value == some true
  | value, logop, t :: rest =>
    if t == [124, 124] then matchGo cmp v value (some true) rest
    else if t == [38, 38] then
      if value != some true then false else matchGo cmp v value (some false) rest
    else if isRelop t then
      match rest with
      | [] => false
      | o :: r =>
        match matchTerm value logop (relop t (cmp v o)) with
        | .inl b => b
        | .inr val => matchGo cmp v val logop r
    else
      match matchTerm value logop (relop [61, 61] (cmp v t)) with
      | .inl b => b
      | .inr val => matchGo cmp v val logop rest

def simpleMatch (v x : Str) : Bool := matchGo simpleCmp v none none (exprTokens [] x)

def simpleOrd : Ord := ⟨simpleCmp, simpleMatch⟩

end EupsModel.Vro
