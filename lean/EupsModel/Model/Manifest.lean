import EupsModel.Model.Str
/-! C18 — model of `eups.distrib.server`: `Manifest.write/read`, `TaggedProductList.addProduct/write/read`,
`Dependency`, `Mapping.add/apply/merge/inverse`, `Manifest.remapEntries` and the `manifest.remap` line parser.
Files are texts (`Str`); dictionaries are association lists with Python's insertion order. -/
namespace EupsModel.Manifest

/-! ## text -/

/-- Python 3 `\s` on `str` -/
def isWs (c : Nat) : Bool :=
  (9 ≤ c && c ≤ 13) || (28 ≤ c && c ≤ 32) || c == 0x85 || c == 0xa0 || c == 0x1680 ||
  (0x2000 ≤ c && c ≤ 0x200a) || c == 0x2028 || c == 0x2029 || c == 0x202f || c == 0x205f || c == 0x3000

/-- `re.findall(r"\S+", s)`; `w` is the word being read -/
def wordsAux : Str → Str → List Str
  | [], w => if w.isEmpty then [] else [w]
  | c :: cs, w =>
    if isWs c then (if w.isEmpty then wordsAux cs [] else w :: wordsAux cs [])
    else wordsAux cs (w ++ [c])

def words (s : Str) : List Str := wordsAux s []

/-- `"%-<n>s" % s` -/
def padTo (n : Nat) (s : Str) : Str := s ++ List.replicate (n - s.length) 32

/-- lines of a text as `for line in fd` yields them, without the terminator (`cur` = line being read) -/
def linesAux : Str → Str → List Str
  | [], cur => if cur.isEmpty then [] else [cur]
  | c :: cs, cur => if c == 10 then cur :: linesAux cs [] else linesAux cs (cur ++ [c])

def lines (s : Str) : List Str := linesAux s []

/-- text mode reading: `\r\n` and `\r` become `\n` -/
def univAux : Bool → Str → Str      -- the flag: the previous character was a `\r` (already turned into `\n`)
  | _, [] => []
  | afterCR, c :: r =>
    if c == 13 then 10 :: univAux true r
    else if c == 10 && afterCR then univAux false r
    else c :: univAux false r

def univNewlines (s : Str) : Str := univAux false s

def dropWs : Str → Str
  | [] => []
  | c :: r => if isWs c then dropWs r else c :: r

/-- `re.search(r"^\s*(#.*)?$", line)` on a line without newline -/
def isBlankOrComment (line : Str) : Bool :=
  match dropWs line with
  | [] => true
  | c :: _ => c == 35

/-- Python truthiness of an optional string -/
def falsy : Option Str → Bool
  | none => true
  | some s => s.isEmpty

def sNone : Str := [110, 111, 110, 101]             -- none
def sNoneCap : Str := [78, 111, 110, 101]           -- None
def sSearch : Str := [115, 101, 97, 114, 99, 104]   -- search
def sGeneric : Str := [103, 101, 110, 101, 114, 105, 99]
def sAny : Str := [97, 110, 121]
def sAnyCap : Str := [65, 110, 121]
def sOPTIONAL : Str := [79, 80, 84, 73, 79, 78, 65, 76]
def sTRUE : Str := [84, 82, 85, 69]
def sFALSE : Str := [70, 65, 76, 83, 69]
def sUNKNOWN : Str := [85, 78, 75, 78, 79, 87, 78, 95, 80, 82, 79, 68, 85, 67, 84]  -- UNKNOWN_PRODUCT
def sNoreinstall : Str := [110, 111, 114, 101, 105, 110, 115, 116, 97, 108, 108]
def sManHead : Str :=  -- "EUPS distribution manifest for "
  [69, 85, 80, 83, 32, 100, 105, 115, 116, 114, 105, 98, 117, 116, 105, 111, 110, 32, 109, 97, 110, 105, 102, 101,
   115, 116, 32, 102, 111, 114, 32]
def sVersionWord : Str := [32, 86, 101, 114, 115, 105, 111, 110, 32]   -- " Version "
def sTagHead : Str :=  -- "EUPS distribution "
  [69, 85, 80, 83, 32, 100, 105, 115, 116, 114, 105, 98, 117, 116, 105, 111, 110, 32]
def sTagMid : Str :=   -- " version list"
  [32, 118, 101, 114, 115, 105, 111, 110, 32, 108, 105, 115, 116]
def sFmt : Str := [49, 46, 48]   -- 1.0

/-! ## Dependency and Manifest -/

structure Dep where
  product : Str
  version : Str
  flavor : Option Str
  tablefile : Option Str
  instDir : Option Str
  distId : Option Str
  isOpt : Bool := false
  recurse : Bool := false
  extra : List Str := []
  deriving DecidableEq, Repr

/-- `Dependency.__init__` (repaired: the text `None` as distribution id means "no id") -/
def mkDep (product version : Str) (flavor tablefile instDir distId : Option Str) (isOpt recurse : Bool)
    (extra : List Str) : Dep :=
  { product, version, flavor, tablefile, instDir,
    distId := if distId == some sNoneCap then none else distId, isOpt, recurse, extra }

/-- the pinned `Dependency.__init__`: `distId == None` is a comparison, the text stays -/
def mkDepPinned (product version : Str) (flavor tablefile instDir distId : Option Str) (isOpt recurse : Bool)
    (extra : List Str) : Dep :=
  { product, version, flavor, tablefile, instDir, distId, isOpt, recurse, extra }

structure Manifest where
  product : Option Str
  version : Option Str
  deps : List Dep
  deriving DecidableEq, Repr

structure WriteOpts where
  noOptional : Bool := true
  /-- the `flavor` argument -/
  flavor : Option Str := none
  /-- `self.eups.flavor` -/
  native : Str

/-- the flavor column (repaired `if flavor: p.flavor = flavor`) -/
def flavorCol (o : WriteOpts) (p : Dep) : Str :=
  let f := if !falsy o.flavor then o.flavor else p.flavor
  if falsy f then o.native else f.getD []

/-- the pinned `if not flavor: p.flavor = flavor` -/
def flavorColPinned (o : WriteOpts) (p : Dep) : Str :=
  let f := if falsy o.flavor then o.flavor else p.flavor
  if falsy f then o.native else f.getD []

def orNone (x : Option Str) : Str := if falsy x then sNone else x.getD []

/-- `"%s" % p.distId` -/
def distIdText : Option Str → Str
  | none => sNoneCap
  | some s => s

/-- `"%-15s %-12s %-10s %-25s %-30s %s"` -/
def entryFields (flavorText : Str) (p : Dep) : List Str :=
  [p.product, flavorText, p.version, orNone p.tablefile, orNone p.instDir, distIdText p.distId]

def fmtEntry (f : List Str) : Str :=
  match f with
  | [a, b, c, d, e, g] =>
    padTo 15 a ++ [32] ++ padTo 12 b ++ [32] ++ padTo 10 c ++ [32] ++ padTo 25 d ++ [32] ++ padTo 30 e ++ [32] ++ g
  | _ => []

def entryLine (o : WriteOpts) (p : Dep) : Str := fmtEntry (entryFields (flavorCol o p) p)
def entryLinePinned (o : WriteOpts) (p : Dep) : Str := fmtEntry (entryFields (flavorColPinned o p) p)

/-- first line of a manifest: `EUPS distribution manifest for P (V). Version 1.0` -/
def manHeader (m : Manifest) : Str :=
  sManHead ++ m.product.getD sUNKNOWN ++ [32, 40] ++ m.version.getD sGeneric ++ [41, 46] ++ sVersionWord ++ sFmt

def written (o : WriteOpts) (m : Manifest) : List Dep := m.deps.filter fun p => !(p.isOpt && o.noOptional)

/-- `Manifest.write`: header, the comment block (`comments`, each line starting with `#`), one line per entry -/
def writeLines (o : WriteOpts) (comments : List Str) (m : Manifest) : List Str :=
  manHeader m :: comments ++ (written o m).map (entryLine o)

def writeLinesPinned (o : WriteOpts) (comments : List Str) (m : Manifest) : List Str :=
  manHeader m :: comments ++ (written o m).map (entryLinePinned o)

def unlines (ls : List Str) : Str := ls.flatMap fun l => l ++ [10]

def write (o : WriteOpts) (comments : List Str) (m : Manifest) : Str := unlines (writeLines o comments m)
def writePinned (o : WriteOpts) (comments : List Str) (m : Manifest) : Str := unlines (writeLinesPinned o comments m)

inductive ReadErr
  | header   -- "First line of manifest file ... is corrupted"
  | line     -- "Failed to parse line"
  deriving DecidableEq, Repr

/-- maximal run of non-blank characters -/
def spanNonWs : Str → Str × Str
  | [] => ([], [])
  | c :: r => if isWs c then ([], c :: r) else let p := spanNonWs r; (c :: p.1, p.2)

def dropLast2 (s : Str) : Str := s.take (s.length - 2)
def dropLast1 (s : Str) : Str := s.take (s.length - 1)
def lastN (n : Nat) (s : Str) : Str := s.drop (s.length - n)

/-- the version token and what follows it, as `(\S+)\s*$` wants them -/
def fmtVersionOk (rest : Str) : Bool :=
  let p := spanNonWs rest
  !p.1.isEmpty && p.2.all isWs

/-- `^EUPS distribution manifest for (\S+) \((\S+)\). Version (\S+)\s*$` on the first line (with its newline, if
any); the unescaped `.` matches any character but a newline -/
def parseManHeader (line : Str) : Option (Str × Str) :=
  if !sManHead.isPrefixOf line then none else
  let p := spanNonWs (line.drop sManHead.length)
  if p.1.isEmpty then none else
  match p.2 with
  | 32 :: 40 :: r =>
    let q := spanNonWs r      -- the run after "("
    let run := q.1
    -- greedy `\S+`: first try V = run minus ")" with `.` = the blank that follows, then V = run minus ")" and one char
    if run.length ≥ 2 && lastN 1 run == [41] &&
        (match q.2 with | _ :: r2 => sVersionWord.isPrefixOf r2 && fmtVersionOk (r2.drop sVersionWord.length) | _ => false)
    then some (p.1, dropLast1 run)
    else if run.length ≥ 3 && (lastN 2 run).head? == some 41 && sVersionWord.isPrefixOf q.2 &&
        fmtVersionOk (q.2.drop sVersionWord.length)
    then some (p.1, dropLast2 run)
    else none
  | _ => none

def isPrefixOfWord (tok word : Str) : Bool := tok.isPrefixOf word

/-- one entry line of a manifest (the body of the `for line in fd` loop); `none` = skipped -/
def parseEntry (pinned : Bool) (recurseDefault : Bool) (line : Str) : Except ReadErr (Option Dep) :=
  if isBlankOrComment line then .ok none else
  match words line with
  | a :: b :: c :: d :: e :: rest =>
    let distId : Option Str := match rest with
      | [] => none
      | x :: _ => if x == sSearch then none else some x
    let isOpt : Bool := match rest with
      | _ :: x :: _ => isPrefixOfWord x sOPTIONAL
      | _ => false
    let recurse : Bool := match rest with
      | _ :: _ :: x :: _ => if isPrefixOfWord x sTRUE then true else if isPrefixOfWord x sFALSE then false else recurseDefault
      | _ => recurseDefault
    let mk := if pinned then mkDepPinned else mkDep
    .ok (some (mk a c (some b) (some d) (some e) distId isOpt recurse (rest.drop 3)))
  | _ => .error .line

def parseEntries (pinned recurseDefault : Bool) : List Str → Except ReadErr (List Dep)
  | [] => .ok []
  | l :: ls =>
    match parseEntry pinned recurseDefault l with
    | .error e => .error e
    | .ok none => parseEntries pinned recurseDefault ls
    | .ok (some d) =>
      match parseEntries pinned recurseDefault ls with
      | .error e => .error e
      | .ok ds => .ok (d :: ds)

/-- `Manifest.read` on a fresh manifest (`setproduct=True`) from the lines of the file -/
def readLines (pinned recurseDefault : Bool) : List Str → Except ReadErr Manifest
  | [] => .error .header
  | h :: rest =>
    match parseManHeader h with
    | none => .error .header
    | some (p, v) =>
      match parseEntries pinned recurseDefault rest with
      | .error e => .error e
      | .ok ds => .ok { product := some p, version := some v, deps := ds }

def read (pinned recurseDefault : Bool) (text : Str) : Except ReadErr Manifest :=
  readLines pinned recurseDefault (lines (univNewlines text))

/-! ### the writers of the distrib types (`Distrib.writeManifest`), reached by `Repository.create` with `flavor=self.flavor` -/

/-- how a distrib type writes a manifest: `DefaultDistrib.writeManifest` (builder, pacman, eupspkg inherit it) forwards
the `flavor` keyword to `Manifest.write`; the tarball type forces `kwargs["flavor"] = None` first -/
inductive Writer
  | default
  | tarball
  deriving DecidableEq, Repr

/-- the `flavor=` that reaches `Manifest.write` -/
def writerFlavor : Writer → Option Str → Option Str
  | .tarball, _ => none
  | .default, f => f

def sDotTable : Str := [46, 116, 97, 98, 108, 101]              -- .table

/-- what `DefaultDistrib.writeManifest` does to an entry's table file before it writes: a missing one becomes `none`,
any other is renamed `<product>-<version>.table` (the copy deployed under `tables/`) -/
def distribTable (d : Dep) : Dep :=
  { d with tablefile := if falsy d.tablefile then some sNone
                        else if d.tablefile == some sNone then some sNone
                        else some (d.product ++ [45] ++ d.version ++ sDotTable) }

/-- the options with which a writer calls `Manifest.write(out, flavor=flavor, noOptional=False)` -/
def writerOpts (w : Writer) (o : WriteOpts) : WriteOpts := { o with flavor := writerFlavor w o.flavor, noOptional := false }

/-- `<type>.Distrib.writeManifest(serverDir, productDeps, product, version, flavor=flavor)`: the text of the manifest -/
def distribWriteManifest (w : Writer) (o : WriteOpts) (m : Manifest) : Str :=
  write (writerOpts w o) [] { m with deps := m.deps.map distribTable }

/-! ### a manifest as a live object -/

/-- `Manifest.read(file, setproduct, shouldRecurse)` into a manifest that may already hold entries: the entries of the
file are appended; product and version are taken from the header if asked for, or if there is none yet -/
def Manifest.readInto (m : Manifest) (setproduct recurseDefault : Bool) (text : Str) : Except ReadErr Manifest :=
  match read false recurseDefault text with
  | .error e => .error e
  | .ok f => .ok { product := if setproduct || m.product.isNone then f.product else m.product,
                   version := if setproduct || m.version.isNone then f.version else m.version,
                   deps := m.deps ++ f.deps }

/-- `Manifest.reverse()` -/
def Manifest.reverse (m : Manifest) : Manifest := { m with deps := m.deps.reverse }

def rollLeft1 {α : Type} : List α → List α
  | [] => []
  | x :: r => r ++ [x]

def rollRight1 {α : Type} (l : List α) : List α :=
  match l.reverse with
  | [] => []
  | x :: r => x :: r.reverse

/-- `Manifest.roll(n)`: `n = 1`: `[a, b, c, d] -> [b, c, d, a]`; negative `n` rolls the other way -/
def iter {α : Type} (f : α → α) : Nat → α → α
  | 0, x => x
  | k + 1, x => iter f k (f x)

def rollList {α : Type} (n : Int) (l : List α) : List α :=
  if n < 0 then iter rollRight1 n.natAbs l else iter rollLeft1 n.natAbs l

def Manifest.roll (m : Manifest) (n : Int) : Manifest := { m with deps := rollList n m.deps }

/-- `Manifest.getDependency(product, version, flavor, which)`: the `which`-th (Python index, default `-1` = last) of the
entries that match -/
def Manifest.getDependency (m : Manifest) (product : Str) (version flavor : Option Str) (which : Int) : Option Dep :=
  let out := m.deps.filter fun d => d.product == product && (version.isNone || some d.version == version) &&
    (flavor.isNone || d.flavor == flavor)
  let n : Int := out.length
  if out.isEmpty || which ≥ n || which < -n then none
  else if which ≥ 0 then out[which.toNat]? else out[(n + which).toNat]?

/-! ## TaggedProductList -/

structure TagList where
  tag : Str
  flavor : Str
  /-- `self.products` -/
  products : List Str
  /-- `self.info`: product ↦ [flavor, version, extra...] -/
  info : List (Str × List Str)
  deriving DecidableEq, Repr

def assocGet {β : Type} (l : List (Str × β)) (k : Str) : Option β :=
  match l with
  | [] => none
  | (k', v) :: r => if k' = k then some v else assocGet r k

/-- `d[k] = v`: an existing key keeps its position -/
def assocSet {β : Type} (l : List (Str × β)) (k : Str) (v : β) : List (Str × β) :=
  match l with
  | [] => [(k, v)]
  | (k', v') :: r => if k' = k then (k, v) :: r else (k', v') :: assocSet r k v

def assocDel {β : Type} (l : List (Str × β)) (k : Str) : List (Str × β) := l.filter fun p => p.1 ≠ k

def TagList.empty (tag : Str) (defFlavor : Option Str) : TagList :=
  { tag, flavor := defFlavor.getD sGeneric, products := [], info := [] }

def TagList.addProduct (t : TagList) (product version : Str) (flavor : Option Str) (extra : List Str) : TagList :=
  { t with info := assocSet t.info product ((flavor.getD t.flavor) :: version :: extra),
           products := if t.products.contains product then t.products else t.products ++ [product] }

/-- insertion into a list sorted by Python's string order -/
def insertSorted (x : Str) : List Str → List Str
  | [] => [x]
  | y :: r => if Str.cmp x y ≤ 0 then x :: y :: r else y :: insertSorted x r

/-- `sorted(self.products)` -/
def sortStrs (l : List Str) : List Str := l.foldr insertSorted []

def tagHeader (tag : Str) : Str := sTagHead ++ tag ++ sTagMid ++ [46] ++ sVersionWord ++ sFmt

/-- one line: `"%-20s %-10s %s"` then `"  %s"` per extra word -/
def tagLine (flavorArg : Option Str) (product : Str) (info : List Str) : Str :=
  match info with
  | fl :: ver :: extra =>
    padTo 20 product ++ [32] ++ padTo 10 (flavorArg.getD fl) ++ [32] ++ ver ++ extra.flatMap (fun x => [32, 32] ++ x)
  | _ => []

/-- `TaggedProductList.write(filename, flavor)`; `none` = `flavor=None` -/
def TagList.writeLines (t : TagList) (flavorArg : Option Str) (comments : List Str) : List Str :=
  tagHeader t.tag :: comments ++ (sortStrs t.products).map fun p => tagLine flavorArg p ((assocGet t.info p).getD [])

def TagList.write (t : TagList) (flavorArg : Option Str) (comments : List Str) : Str :=
  unlines (t.writeLines flavorArg comments)

/-- `^EUPS distribution <tag> version list. Version (\S+)\s*$` (the tag is taken literally: tags are plain words) -/
def parseTagHeader (tag line : Str) : Bool :=
  let pre := sTagHead ++ tag ++ sTagMid
  pre.isPrefixOf line &&
    (match line.drop pre.length with
     | c :: r => c != 10 && sVersionWord.isPrefixOf r && fmtVersionOk (r.drop sVersionWord.length)
     | [] => false)

/-- `commre.split(line)[0].strip()` is empty: a blank line or a line whose first non-blank character is `#` -/
def tagSkip (line : Str) : Bool := isBlankOrComment line

/-- body of the loop of `TaggedProductList.read`; fewer than three words raises `IndexError` -/
def tagEntry (t : TagList) (line : Str) : Except ReadErr TagList :=
  if tagSkip line then .ok t else
  match words line with
  | p :: fl :: ver :: extra =>
    let fl := if fl == sGeneric then t.flavor else fl
    if fl == t.flavor then .ok (t.addProduct p ver (some fl) extra) else .ok t
  | _ => .error .line

def tagEntries (t : TagList) : List Str → Except ReadErr TagList
  | [] => .ok t
  | l :: ls =>
    match tagEntry t l with
    | .error e => .error e
    | .ok t' => tagEntries t' ls

/-- `TaggedProductList.read` into `t` -/
def TagList.read (t : TagList) (text : Str) : Except ReadErr TagList :=
  match lines (univNewlines text) with
  | [] => .error .header
  | h :: rest => if parseTagHeader t.tag h then tagEntries t rest else .error .header

/-- `getProducts()`: `[product, flavor, version, extra...]` in list order -/
def TagList.getProducts (t : TagList) : List (List Str) :=
  t.products.map fun p => p :: (assocGet t.info p).getD []

/-- `deleteProduct` -/
def TagList.deleteProduct (t : TagList) (product : Str) : TagList :=
  { t with products := t.products.filter (· ≠ product), info := assocDel t.info product }

/-- `mergeProductList(other)`: `addProduct(p[0], p[2], p[1], p[3:])` for every row of `other.getProducts()` -/
def TagList.mergeProductList (t other : TagList) : TagList :=
  other.getProducts.foldl (fun t row =>
    match row with
    | p :: fl :: ver :: extra => t.addProduct p ver (some fl) extra
    | _ => t) t

/-- `getProducts(sort=True)` sorts `self.products` in place before it lists them -/
def TagList.sortInPlace (t : TagList) : TagList := { t with products := sortStrs t.products }

/-- `getProductInfo(product)`: `[flavor, version, extra…]`, `none` = `[None, None]` -/
def TagList.getProductInfo (t : TagList) (product : Str) : Option (List Str) := assocGet t.info product

/-! ## Mapping -/

/-- flavor ↦ product ↦ inVersion ↦ (outProduct, outVersion); an out-version `none` = "remove this version" -/
abbrev MapTable := List (Str × List (Str × List (Str × (Str × Option Str))))

structure Mapping where
  map : MapTable := []
  noReinstall : MapTable := []
  deriving Repr

def lowerAscii (s : Str) : Str := s.map fun c => if 65 ≤ c && c ≤ 90 then c + 32 else c

/-- the body of `Mapping.add` on one of the two tables.  `pinned`: the pinned tree recorded a removal by deleting
the in-version (leaving a table that, once empty, removes every version); the repaired tree records
`(outProduct, None)`. -/
def tableAdd (pinned : Bool) (m : MapTable) (inP inV outP : Str) (outV : Option Str) (flavor : Str) (overwrite : Bool) :
    MapTable :=
  let byP := (assocGet m flavor).getD []
  let byV := (assocGet byP inP).getD []
  let byV' : List (Str × (Str × Option Str)) :=
    if !overwrite && (assocGet byV inV).isSome then byV
    else if falsy outV then (if pinned then assocDel byV inV else assocSet byV inV (outP, none))
    else assocSet byV inV (outP, outV)
  assocSet m flavor (assocSet byP inP byV')

/-- `Mapping.add(inProduct, inVersion, outProduct, outVersion, flavor, overwrite)` -/
def Mapping.addP (pinned : Bool) (m : Mapping) (inP inV : Str) (outP outV : Option Str) (flavor : Str)
    (overwrite : Bool) : Mapping :=
  let outP' := if falsy outP then inP else outP.getD []
  if !falsy outV && lowerAscii (outV.getD []) == sNoreinstall then
    { m with noReinstall := tableAdd pinned m.noReinstall inP inV outP' outV flavor overwrite }
  else { m with map := tableAdd pinned m.map inP inV outP' outV flavor overwrite }

def Mapping.add := Mapping.addP false
def Mapping.addPinned := Mapping.addP true

/-- `_apply`; an out-version of `none` means "remove the product" -/
def Mapping.apply1 (m : Mapping) (inP inV flavor : Str) : Str × Option Str :=
  match assocGet m.map flavor with
  | none => (inP, some inV)
  | some byP =>
    match assocGet byP inP with
    | none => (inP, some inV)
    | some byV =>
      if byV.isEmpty then (inP, none)
      else match assocGet byV inV with
        | some r => r
        | none => match assocGet byV sAny with
          | some r => r
          | none => (inP, some inV)

/-- `Mapping.apply` with the `generic` fallback -/
def Mapping.apply (m : Mapping) (inP inV flavor : Str) : Str × Option Str :=
  let r := m.apply1 inP inV flavor
  if flavor != sGeneric && r == (inP, some inV) then m.apply1 inP inV sGeneric else r

def tableExists (m : MapTable) (p v flavor : Str) : Bool :=
  match assocGet m flavor with
  | none => false
  | some byP => match assocGet byP p with
    | none => false
    | some byV => (assocGet byV v).isSome

/-- `Mapping.merge(other, overwrite)`: whole per-product tables are copied, flavor by flavor -/
def tableMerge (s o : MapTable) (overwrite : Bool) : MapTable :=
  o.foldl (fun s (fl, byP) =>
    byP.foldl (fun s (p, byV) =>
      let sP := (assocGet s fl).getD []
      let s1 := if (assocGet s fl).isSome then s else assocSet s fl []
      if !overwrite && (assocGet sP p).isSome then s1 else assocSet s1 fl (assocSet sP p byV)) s) s

def Mapping.merge (s o : Mapping) (overwrite : Bool) : Mapping :=
  { map := tableMerge s.map o.map overwrite, noReinstall := tableMerge s.noReinstall o.noReinstall overwrite }

/-- `Mapping.inverse()`; `none` = `RuntimeError("Mapping isn't one-to-one and onto ...")`; removals are skipped -/
def Mapping.inverse (m : Mapping) : Option Mapping :=
  m.map.foldlM (fun inv (f, byP) =>
    byP.foldlM (fun inv (inP, byV) =>
      byV.foldlM (fun (inv : Mapping) (inV, (outP, outV)) =>
        match outV with
        | none => some inv
        | some ov =>
          if tableExists inv.map outP ov f then none
          else some (inv.add outP ov (some inP) (some inV) f true)) inv) inv) {}

/-! ## remapEntries -/

/-- the loop of `Manifest.remapEntries` over the products: the list it leaves (the products it declares on the way
are `dummyDeclares`) -/
def remapDeps (m : Mapping) (flavor : Str) (deps : List Dep) : List Dep :=
  deps.filterMap fun p =>
    match m.apply p.product p.version flavor with
    | (_, none) => none
    | (pn, some vn) =>
      if (pn, vn) != (p.product, p.version) then some (mkDep pn vn none none none none false false []) else some p

def sDummy : Str := [100, 117, 109, 109, 121]                 -- dummy

/-- `Eups.declare` accepts the product name: no character outside `[a-zA-Z_0-9]` (otherwise it raises, and
`remapEntries` prints the exception and goes on) -/
def legalName (n : Str) : Bool := n.all fun c => Str.isAlnum c || c == 95

/-- the `dummy` branch of `Manifest.remapEntries`: an entry that the mapping *changes* into version `dummy` makes eups
declare that product (`eups.declare(name, "dummy", productDir="none", tablefile="none")`) unless `findProduct` already
finds it.  `known` = the products for which `findProduct(name, "dummy")` succeeds; the result lists the products
declared, in order (a product declared for one entry is found for the next; a name `Eups.declare` refuses is not
declared, the exception is printed and swallowed). -/
def dummyDeclares (m : Mapping) (flavor : Str) : List Str → List Dep → List Str
  | _, [] => []
  | known, p :: rest =>
    match m.apply p.product p.version flavor with
    | (pn, some vn) =>
      if (pn, vn) != (p.product, p.version) && vn == sDummy && !known.contains pn && legalName pn then
        pn :: dummyDeclares m flavor (known ++ [pn]) rest
      else dummyDeclares m flavor known rest
    | (_, none) => dummyDeclares m flavor known rest

/-- split at the first `:` as `^([^:]+)(?::(.*))?` does; `none` = the word starts with `:` (no match) -/
def splitColon (w : Str) : Option (Str × Option Str) :=
  let a := w.takeWhile (· != 58)
  if a.isEmpty then none else
  match w.drop a.length with
  | [] => some (a, none)
  | _ :: r => some (a, some r)

structure RemapLine where
  product : Str
  inVersion : Str
  outProduct : Option Str
  outVersion : Option Str
  flavor : Str
  deriving DecidableEq, Repr

/-- `re.sub(r"\s*#.*$", "", line.strip())` -/
def stripComment (line : Str) : Str :=
  let rec go : Str → Str → Str → Str      -- pending blanks, output so far
    | [], _pend, out => out
    | c :: r, pend, out =>
      if c == 35 then out
      else if isWs c then go r (pend ++ [c]) out
      else go r [] (out ++ pend ++ [c])
  go (dropWs line) [] []

/-- words of `line.split()` turned into the arguments of `mapping.add`; `none` = nothing to add (blank line) -/
def parseRemapWords (vals : List Str) : Option (Option RemapLine) :=
  match vals with
  | [] => some none
  | v0 :: rest =>
    match splitColon v0 with
    | none => none
    | some (product, inv) =>
      let inVersion := match inv with
        | none => sAny
        | some x => if x == sAny || x == sAnyCap then sAny else x
      match rest with
      | [] => some (some { product, inVersion, outProduct := none, outVersion := none, flavor := sGeneric })
      | v1 :: rest2 =>
        match splitColon v1 with
        | none => none
        | some (op, ov) =>
          let (outProduct, outVersion) : Str × Str :=
            match ov with
            | none => (product, op)
            | some x => if x.isEmpty then (product, op) else (op, x)
          let outVersion' : Option Str :=
            if outVersion == sAny || outVersion == sNone || outVersion == sNoneCap then none else some outVersion
          let flavor := match rest2 with
            | [] => sGeneric
            | f :: _ => if f.isEmpty then sGeneric else f
          some (some { product, inVersion, outProduct := some outProduct, outVersion := outVersion', flavor })

end EupsModel.Manifest

namespace EupsModel.Manifest

def sVerbose : Str := [118, 101, 114, 98, 111, 115, 101]

/-- `^\[([^]]+)\]\s*(.*)`: the mode word and the rest of the line -/
def bracketPrefix (line : Str) : Option (Str × Str) :=
  match line with
  | 91 :: r =>
    let g := r.takeWhile (· != 93)
    if g.isEmpty then none else
    match r.drop g.length with
    | 93 :: rest => some (g, dropWs rest)
    | _ => none
  | _ => none

/-- `^\s*verbose\s*=\s*(True|False|0|1)\s*` -/
def isVerboseLine (line : Str) : Bool :=
  let l := dropWs line
  if !sVerbose.isPrefixOf l then false else
  match dropWs (l.drop sVerbose.length) with
  | 61 :: r =>
    let v := dropWs r
    [84, 114, 117, 101].isPrefixOf v || [70, 97, 108, 115, 101].isPrefixOf v || [48].isPrefixOf v || [49].isPrefixOf v
  | _ => false

/-- one line of `manifest.remap` as `_readRemapFile(..., mode=mode)` treats it: `none` = the code raises,
`some none` = nothing to add.  `pinned`: the pinned tree skipped the test of the `[mode]` prefix when no mode was
given (`if mode and mode != ...`). -/
def parseRemapLineP (pinned : Bool) (mode : Option Str) (raw : Str) : Option (Option RemapLine) :=
  let line := stripComment raw
  if line.isEmpty then some none else
  let modeSet := !falsy mode
  match bracketPrefix line with
  | some (g, rest) =>
    if (if pinned then modeSet && mode != some g else mode != some g) then some none
    else if isVerboseLine rest then some none else parseRemapWords (words rest)
  | none =>
    if modeSet then some none
    else if isVerboseLine line then some none else parseRemapWords (words line)

def parseRemapLine := parseRemapLineP false

end EupsModel.Manifest

namespace EupsModel.Manifest

/-- the lines of one `manifest.remap` file added to a mapping (`_readRemapFile`); `none` = the code raises -/
def addRemapLines (pinned : Bool) (m : Mapping) (mode : Option Str) (overwrite : Bool) (lns : List Str) : Option Mapping :=
  lns.foldlM (fun m l =>
    match parseRemapLineP pinned mode l with
    | none => none
    | some none => some m
    | some (some r) => some (m.addP pinned r.product r.inVersion r.outProduct r.outVersion r.flavor overwrite)) m

/-- the files of the customisation directories, in order (repaired call `_readRemapFile(dir, m, mode=mode)`) -/
def readRemapFiles (mode : Option Str) (files : List (List Str)) : Option Mapping :=
  files.foldlM (fun m f => addRemapLines false m mode true f) {}

/-- the pinned call `_readRemapFile(dir, m, mode)`: the mode lands in `overwrite`, the reader sees no mode -/
def readRemapFilesPinned (mode : Option Str) (files : List (List Str)) : Option Mapping :=
  files.foldlM (fun m f => addRemapLines true m none (!falsy mode) f) {}

/-- `Manifest.remapEntries(mapping, mode)` -/
def remapEntries (arg : Mapping) (mode : Option Str) (files : List (List Str)) (flavor : Str) (deps : List Dep) :
    Option (List Dep) :=
  (readRemapFiles mode files).map fun ff => remapDeps (arg.merge ff false) flavor deps

/-- the pinned `def remapEntries(self, mapping=Mapping(), mode=None)`: a call without a mapping argument uses — and
its `merge` mutates — the one default object shared by all calls of the process.  `leftover` = that object as the
earlier calls left it; the result is the remapped list and the object as this call leaves it. -/
def remapEntriesDefaultPinned (leftover : Mapping) (mode : Option Str) (files : List (List Str)) (flavor : Str)
    (deps : List Dep) : Option (List Dep × Mapping) :=
  (readRemapFiles mode files).map fun ff => (remapDeps (leftover.merge ff false) flavor deps, leftover.merge ff false)

def remapEntriesPinned (arg : Mapping) (mode : Option Str) (files : List (List Str)) (flavor : Str) (deps : List Dep) :
    Option (List Dep) :=
  (readRemapFilesPinned mode files).map fun ff => remapDeps (arg.merge ff false) flavor deps

end EupsModel.Manifest

namespace EupsModel.Manifest

/-! ## DistribServer: tagged-release lists served from `<base>/<tag>.list`, parsed lists cached per (tag, flavor) -/

/-- `DistribServer.tagged` -/
abbrev TagCache := List ((Str × Option Str) × TagList)

def cacheGet (c : TagCache) (k : Str × Option Str) : Option TagList :=
  match c with
  | [] => none
  | (k', t) :: r => if k' = k then some t else cacheGet r k

inductive ServeErr
  | notFound            -- RemoteFileNotFound: no `<tag>.list` on the server
  | read (e : ReadErr)  -- the file does not parse
  deriving DecidableEq, Repr

/-- `TaggedProductList.fromFile(<base>/<tag>.list, tag, flavor=flavor)`; `files`: tag ↦ text of the file -/
def parseList (files : List (Str × Str)) (tag : Str) (flavor : Option Str) : Except ServeErr TagList :=
  match assocGet files tag with
  | none => .error .notFound
  | some text =>
    match (TagList.empty tag flavor).read text with
    | .error e => .error (.read e)
    | .ok t => .ok t

/-- the key under which a parsed list is cached: `(tag, flavor)`; `byTagOnly` is the variant that forgets the flavor
(kept to show that the flavor in the key is necessary) -/
def cacheKey (byTagOnly : Bool) (tag : Str) (flavor : Option Str) : Str × Option Str :=
  if byTagOnly then (tag, none) else (tag, flavor)

/-- `DistribServer.getTaggedProductList(tag, flavor)` -/
def getTaggedProductList (byTagOnly : Bool) (files : List (Str × Str)) (c : TagCache) (tag : Str) (flavor : Option Str) :
    Except ServeErr TagList × TagCache :=
  match cacheGet c (cacheKey byTagOnly tag flavor) with
  | some t => (.ok t, c)
  | none =>
    match parseList files tag flavor with
    | .error e => (.error e, c)
    | .ok t => (.ok t, (cacheKey byTagOnly tag flavor, t) :: c)

inductive Req
  | list (tag : Str) (flavor : Option Str)                    -- getTaggedProductList(tag, flavor).getProducts()
  | info (tag : Str) (flavor : Option Str) (product : Str)    -- getTaggedProductInfo(product, flavor, tag)
  deriving DecidableEq, Repr

inductive Ans
  | products (l : List (List Str))
  /-- `[product] + getProductInfo(product)`; `none` = `[product, None, None]` -/
  | info (i : Option (List Str))
  | err (e : ServeErr)
  deriving DecidableEq, Repr

def Req.tag : Req → Str
  | .list t _ => t
  | .info t _ _ => t
def Req.flavor : Req → Option Str
  | .list _ f => f
  | .info _ f _ => f

def answerFrom (r : Req) (t : TagList) : Ans :=
  match r with
  | .list _ _ => .products t.getProducts
  | .info _ _ p => .info ((assocGet t.info p).map fun i => p :: i)

/-- one request to a server object -/
def serve1 (byTagOnly : Bool) (files : List (Str × Str)) (c : TagCache) (r : Req) : Ans × TagCache :=
  match getTaggedProductList byTagOnly files c r.tag r.flavor with
  | (.error e, c') => (.err e, c')
  | (.ok t, c') => (answerFrom r t, c')

/-- a history of requests to one server object: the answers, in order -/
def serve (byTagOnly : Bool) (files : List (Str × Str)) : TagCache → List Req → List Ans
  | _, [] => []
  | c, r :: rs => let p := serve1 byTagOnly files c r; p.1 :: serve byTagOnly files p.2 rs

/-- the cache after a history -/
def cacheAfter (byTagOnly : Bool) (files : List (Str × Str)) : TagCache → List Req → TagCache
  | c, [] => c
  | c, r :: rs => cacheAfter byTagOnly files (serve1 byTagOnly files c r).2 rs

/-! ## DistribServer.getFile / cacheFile: files fetched from the server, remembered per source -/

/-- `DistribServer._fileCache` (source path ↦ the local file the copy was written to) and the local files -/
structure FileSrv where
  cache : List (Str × Str) := []
  files : List (Str × Str) := []
  deriving DecidableEq, Repr

inductive FileAns
  | content (text : Str)
  | notFound                     -- RemoteFileNotFound
  | sameFile                     -- shutil.SameFileError (pinned tree only)
  deriving DecidableEq, Repr

/-- `DistribServer.getFile(path, filename=dest)` → `cacheFile(dest, base/path)`; the answer is what the returned local
file holds.  `pinned`: the pinned `cacheFile` kept believing that a local file holds the source it was first written
for, even after the same file had been given as destination for another source, and copied a file onto itself. -/
def getFile (pinned : Bool) (server : List (Str × Str)) (s : FileSrv) (path dest : Str) : FileAns × FileSrv :=
  let s1 : FileSrv := if pinned then s else
    { s with cache := s.cache.filter fun p => !(p.2 == dest && p.1 != path) }
  match assocGet s1.cache path with
  | some f =>
    if f == dest then (if pinned then (.sameFile, s1) else (.content ((assocGet s1.files f).getD []), s1))
    else
      let c := (assocGet s1.files f).getD []
      (.content c, { s1 with files := assocSet s1.files dest c })
  | none =>
    match assocGet server path with
    | none => (.notFound, s1)
    | some c => (.content c, { cache := assocSet s1.cache path dest, files := assocSet s1.files dest c })

/-- a history of requests `(path, dest)` to one server object -/
def getFiles (pinned : Bool) (server : List (Str × Str)) : FileSrv → List (Str × Str) → List FileAns
  | _, [] => []
  | s, (p, d) :: r => (getFile pinned server s p d).1 :: getFiles pinned server (getFile pinned server s p d).2 r

/-! ## Distrib._createDeps: the order of the dependency manifest -/

/-- one element of `Eups.getDependentProducts(product, topological=True)` as `_createDeps` uses it: name, requested
version, optional flag, recursion depth, and the version `findProductFromVRO` finds (`none`: not found) -/
structure DepReq where
  name : Str
  version : Str
  optional : Bool
  depth : Nat
  found : Option Str
  deriving DecidableEq, Repr

/-- stable insertion by decreasing depth (`dependencies.sort(key=lambda a: -a[2])`) -/
def insertByDepth (x : DepReq) : List DepReq → List DepReq
  | [] => [x]
  | y :: r => if x.depth ≥ y.depth then x :: y :: r else y :: insertByDepth x r

def sortByDepth (l : List DepReq) : List DepReq := l.foldr insertByDepth []

/-- the loop over the sorted dependencies: a product that is found is listed with the version found, a missing
optional one is skipped, a missing required one raises `ProductNotFound` (`none`) -/
def listDeps : List DepReq → Option (List (Str × Str × Bool))
  | [] => some []
  | d :: r =>
    match d.found with
    | some v => (listDeps r).map fun l => (d.name, v, d.optional) :: l
    | none => if d.optional then listDeps r else none

/-- `_createDeps`: the top product is added first, the dependencies follow deepest first, and `roll()` takes the top
product to the end: the manifest is in install order -/
def createDepsOrder (top : Str × Str) (deps : List DepReq) : Option (List (Str × Str × Bool)) :=
  (listDeps (sortByDepth deps)).map fun l => rollList 1 ((top.1, top.2, false) :: l)

end EupsModel.Manifest
