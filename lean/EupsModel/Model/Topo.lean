/-! Model of `utils.topologicalSort` (python/eups/utils.py l.770-885), generic in the node type.

The input is Python's `graph : dict node -> iterable of nodes`, here an association list.  The steps of
the code, in order:

* `graph[k] = set(v)`, `v.discard(k)`, nodes that occur only as dependencies get an empty entry
  (`normalise`);
* `stronglyConnectedComponents(graph)` — modelled by its **specification**: the classes of mutual
  reachability (`sccOf`), computed from reachability sets (`closure`).  The real function is Tarjan's
  algorithm; its output enters `topologicalSort` only through the partition it induces, and the
  correspondence check tests the real function against this specification on generated graphs;
* `checkCycles` and a component with more than one member → `RuntimeError` (first error exit);
* condensation (`condense`), then the layering loop (`layers`): emit every component without
  remaining dependencies, delete them, repeat; a non-empty remainder → `RuntimeError` (second exit).

Within a layer the code sorts the products; the order inside a layer never reaches a caller of
`getDependentProducts` (only the layer index does), so layers are kept in graph order. -/
namespace EupsModel.Topo

variable {α : Type} [DecidableEq α]

abbrev Graph (α : Type) := List (α × List α)

/-- keep the first occurrence of each element (Python `set` / dict-key semantics, order of insertion) -/
def dedup : List α → List α
  | [] => []
  | x :: xs => x :: (dedup xs).filter (· != x)

def keys (g : Graph α) : List α := g.map (·.1)

/-- `graph[a]` (empty for a node without entry) -/
def succs (g : Graph α) (a : α) : List α :=
  match g.find? (fun p => p.1 == a) with
  | some p => p.2
  | none => []

/-- sets, no self-dependency, every mentioned node is a key; duplicate keys merged (dict) -/
def normalise (g : Graph α) : Graph α :=
  let nodes := dedup (keys g ++ g.flatMap (·.2))
  nodes.map fun a => (a, dedup ((g.filter (fun p => p.1 == a)).flatMap (·.2)) |>.filter (· != a))

/-! ### reachability by closure; out of fuel is `none` -/

/-- successors of members of `S` that are not yet in `S` -/
def frontier (g : Graph α) (S : List α) : List α := dedup ((S.flatMap (succs g)).filter (fun b => !S.contains b))

def closure (g : Graph α) : Nat → List α → Option (List α)
  | 0, _ => none
  | f + 1, S => if frontier g S = [] then some S else closure g f (S ++ frontier g S)

/-- nodes reachable from `a` by zero or more edges -/
def reachFrom (g : Graph α) (a : α) : Option (List α) := closure g ((keys g).length + 1) [a]

/-- the table `a ↦ reachFrom a` for the given nodes -/
def reachRows (g : Graph α) : List α → Option (List (α × List α))
  | [] => some []
  | a :: as =>
    match reachFrom g a, reachRows g as with
    | some r, some rs => some ((a, r) :: rs)
    | _, _ => none

/-- the table `a ↦ reachFrom a` for every key -/
def reachTable (g : Graph α) : Option (List (α × List α)) := reachRows g (keys g)

def reaches (R : List (α × List α)) (a b : α) : Bool :=
  match R.find? (fun p => p.1 == a) with
  | some p => p.2.contains b
  | none => false

/-- the strongly connected component of `a`: every key mutually reachable with `a`, in key order (so
that equal components are equal lists) -/
def sccOf (R : List (α × List α)) (nodes : List α) (a : α) : List α :=
  nodes.filter fun b => reaches R a b && reaches R b a

def components (R : List (α × List α)) (nodes : List α) : List (List α) :=
  dedup (nodes.map (sccOf R nodes))

/-- `component_graph`: an edge between two different components for every edge between members -/
def condense (g : Graph α) (R : List (α × List α)) : Graph (List α) :=
  let nodes := keys g
  (components R nodes).map fun c =>
    (c, dedup (((c.flatMap (succs g)).map (sccOf R nodes)).filter (· != c)))

/-! ### the layering loop -/

/-- `ordered`: items without remaining dependencies -/
def ready (g : Graph α) : List α := (g.filter (fun p => p.2.isEmpty)).map (·.1)

/-- `ngraph`: drop the ordered items and every mention of them -/
def strip (g : Graph α) : Graph α :=
  (g.filter (fun p => !p.2.isEmpty)).map fun p => (p.1, p.2.filter (fun d => !(ready g).contains d))

/-- layers in emission order and the part of the graph that could not be ordered -/
def layers : Nat → Graph α → Option (List (List α) × Graph α)
  | 0, _ => none
  | f + 1, g =>
    if ready g = [] then some ([], g)
    else match layers f (strip g) with
      | none => none
      | some (ls, rest) => some (ready g :: ls, rest)

inductive Result (α : Type) where
  | ok (layers : List (List α))
  | cycle          -- either RuntimeError exit
  | outOfFuel
deriving Repr, DecidableEq

/-- `topologicalSort(graph, checkCycles=...)` consumed to the end -/
def topologicalSort (g0 : Graph α) (checkCycles : Bool) : Result α :=
  let g := normalise g0
  match reachTable g with
  | none => .outOfFuel
  | some R =>
    let cg := condense g R
    if checkCycles && (keys cg).any (fun c => c.length > 1) then .cycle
    else match layers (cg.length + 1) cg with
      | none => .outOfFuel
      | some (ls, rest) => if rest.isEmpty then .ok (ls.map List.flatten) else .cycle

end EupsModel.Topo
