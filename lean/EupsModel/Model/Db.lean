import EupsModel.Model.Str
/-! Model of the product database as `Eups.declare / undeclare / assignTag / unassignTag`
(python/eups/Eups.py) drive it through `Database.declare / undeclare / assignTag / unassignTag`
(python/eups/db/Database.py) and through the in-memory `ProductStack` / `ProductFamily`
(python/eups/stack).

Levels.
* `Spec` — the abstract content of the stacks on `EUPS_PATH`: declarations keyed by
  (stack, name, version, flavor) ↦ (directory, table), global tags keyed by (stack, tag, name, flavor) ↦
  version.  It is what a fresh reader of the files sees (`Model/DbFile.lean` relates it to version files
  holding several flavors and to chain files).
* `Eff` — the effects of a command, in the order the code performs them.  Every `Database` mutation in
  `Eups.py` is followed by the same three steps — the mutation, its write-through on the in-memory
  `ProductStack`, `save(flavor)` of that stack's cache file — so one constructor stands for the triple
  (`Model/Cache.lean` applies the three parts in order and can stop after the first: a crash).
* A command is a function `Proc → Outcome × Proc`; `Proc` carries the state the command started from and
  the trace of effects so far, the current database and in-memory view being *defined* as the replay of the
  trace.  A crashed command is a prefix of its trace (`Model/Cache.lean`).

Every read a command makes goes through the in-memory view `Proc.mem` (what `self.versions[...]` holds:
for each stack the flavors that were loaded), exactly as in `Eups.py`; only the `Database` primitives look
at the files.  `noaction` is tested exactly where `Eups.py` tests it.

A later `Remove` model (C14) builds on this file: `Proc.dirs` is the set of installation directories,
`undeclare` is the per-product step of `Eups.remove`. -/
namespace EupsModel.Db

abbrev Name := Str
abbrev Ver := Str
abbrev Flav := Str
abbrev Tag := Str

/-- `"generic"`, the fallback flavor (`hooks.config.Eups.fallbackFlavors = {None: "generic"}`) -/
def generic : Flav := [103, 101, 110, 101, 114, 105, 99]
/-- `"current"` -/
def current : Tag := [99, 117, 114, 114, 101, 110, 116]

/-- `utils.Flavor().getFallbackFlavors(flavor, True)` once `Eups.__init__` has installed the fallbacks -/
def fallbacks (f : Flav) : List Flav := [f, generic]

/-- An installation directory: `rel` below the root of stack `root` (`root ≥` number of stacks: outside
every stack).  Version files store it relative when it lies in the stack of the database (`DbFile.lean`). -/
structure Dir where
  root : Nat
  rel : Str
  deriving DecidableEq, Repr

/-- The table file of a declaration: `<dir>/ups/<name>.table`, the literal `none`, a file kept somewhere else
(`declare -m <path>`), or the copy in the extra directory of the declaration,
`ups_db/<flavor>/<name>/<version>/ups/<name>.table` (table given as a stream, `declare -M`; "interned"). -/
inductive Table
  | default
  | none
  | ext (d : Dir)
  | interned
  deriving DecidableEq, Repr

structure Decl where
  stack : Nat
  name : Name
  ver : Ver
  flav : Flav
  dir : Dir
  table : Table
  deriving DecidableEq, Repr

structure TagRec where
  stack : Nat
  tag : Tag
  name : Name
  flav : Flav
  ver : Ver
  deriving DecidableEq, Repr

/-- Abstract content of the stacks. -/
structure Spec where
  decls : List Decl
  tags : List TagRec
  deriving DecidableEq, Repr

def Spec.empty : Spec := ⟨[], []⟩

/-- An installation directory on disk together with the product whose table file it holds
(`<dir>/ups/<tname>.table`). -/
structure DirEnt where
  dir : Dir
  tname : Name
  deriving DecidableEq, Repr

/-- A file saved in the "extra directory" of a declaration, `ups_db/<flavor>/<name>/<version>/<path>` of a stack
(`declare(..., externalFileList=[...])`, `eups declare -L`); `content` identifies what was copied. -/
structure Extra where
  stack : Nat
  flav : Flav
  name : Name
  ver : Ver
  path : Str
  content : Nat
  deriving DecidableEq, Repr

/-- A table file kept outside the installation directories (what `declare -m <path>` can name); `content`
identifies its bytes. -/
structure TFile where
  loc : Dir
  content : Nat
  deriving DecidableEq, Repr

/-! ## keys -/

def Decl.hasKey (d : Decl) (s : Nat) (n : Name) (v : Ver) (f : Flav) : Bool :=
  d.stack == s && d.name == n && d.ver == v && d.flav == f

def Decl.sameKey (d e : Decl) : Bool := d.hasKey e.stack e.name e.ver e.flav

def TagRec.hasKey (r : TagRec) (s : Nat) (t : Tag) (n : Name) (f : Flav) : Bool :=
  r.stack == s && r.tag == t && r.name == n && r.flav == f

def TagRec.sameKey (r q : TagRec) : Bool := r.hasKey q.stack q.tag q.name q.flav

/-- the tag record points at this declaration -/
def TagRec.pointsAt (r : TagRec) (s : Nat) (n : Name) (v : Ver) (f : Flav) : Bool :=
  r.stack == s && r.name == n && r.flav == f && r.ver == v

/-! ## reads -/

def Spec.findDecl (c : Spec) (s : Nat) (n : Name) (v : Ver) (f : Flav) : Option Decl :=
  c.decls.find? (·.hasKey s n v f)

def Spec.hasDecl (c : Spec) (s : Nat) (n : Name) (v : Ver) (f : Flav) : Bool :=
  c.decls.any (·.hasKey s n v f)

def Spec.tagVer (c : Spec) (s : Nat) (t : Tag) (n : Name) (f : Flav) : Option Ver :=
  (c.tags.find? (·.hasKey s t n f)).map (·.ver)

def Spec.hasTag (c : Spec) (s : Nat) (t : Tag) (n : Name) (f : Flav) : Bool :=
  c.tags.any (·.hasKey s t n f)

/-- first stack of `stacks` that holds (n, v, f): the explicit-version loop of `Eups.findProduct` -/
def Spec.findIn (c : Spec) (stacks : List Nat) (n : Name) (v : Ver) (f : Flav) : Option Decl :=
  stacks.findSome? fun s => c.findDecl s n v f

/-- `Eups._findTaggedProduct`: first stack whose family of (n, f) carries the tag on a version it holds -/
def Spec.findTagged (c : Spec) (stacks : List Nat) (n : Name) (t : Tag) (f : Flav) : Option Decl :=
  stacks.findSome? fun s =>
    match c.tagVer s t n f with
    | none => none
    | some v => c.findDecl s n v f

/-- `ProductFamily.getProduct(version).tags` -/
def Spec.tagsOf (c : Spec) (d : Decl) : List Tag :=
  (c.tags.filter fun r => r.pointsAt d.stack d.name d.ver d.flav).map (·.tag)

/-- does any version of (n, f) exist in one of the stacks (`findPreferredProduct` ends with `latest`) -/
def Spec.anyVersion (c : Spec) (stacks : List Nat) (n : Name) (f : Flav) : Bool :=
  c.decls.any fun d => stacks.contains d.stack && d.name == n && d.flav == f

/-- order of version names used to sort a listing; the universes of the correspondence use
single-component versions, on which `hooks.version_cmp` is the string order (C10 owns the general case) -/
def verLe (a b : Ver) : Bool := Str.cmp a b ≤ 0

/-- insertion into a list sorted by version (structural, so that closed instances reduce by `decide`) -/
def insertByVer (d : Decl) : List Decl → List Decl
  | [] => [d]
  | x :: xs => if verLe d.ver x.ver then d :: x :: xs else x :: insertByVer d xs

def sortByVer : List Decl → List Decl
  | [] => []
  | d :: ds => insertByVer d (sortByVer ds)

/-- versions of (s, n, f), sorted: `stack.getVersions(pname, flavor)` + `vers.sort(version_cmp)` -/
def Spec.versionsOf (c : Spec) (s : Nat) (n : Name) (f : Flav) : List Decl :=
  sortByVer (c.decls.filter fun d => d.stack == s && d.name == n && d.flav == f)

/-- `utils.uniq` over `Product`s: `Product.__eq__` compares name, version and flavor, not the stack -/
def uniqNVF : List Decl → List Decl
  | [] => []
  | d :: ds => d :: (uniqNVF ds).filter fun e => !(e.name == d.name && e.ver == d.ver && e.flav == d.flav)

def allStacks (nst : Nat) : List Nat := List.range nst

def stacksOf (nst : Nat) : Option Nat → List Nat
  | some s => [s]
  | none => allStacks nst

/-- `Eups.findProducts(name, None, tags, eupsPathDirs)` of an instance of flavor `self`, no product set up:
for every stack and fallback flavor that knows the product, the path-wide tagged product first (when tags
are asked for), then the versions (those carrying the tag). -/
def findProducts (m : Spec) (nst : Nat) (self : Flav) (n : Name) (tag : Option Tag) (stacks : List Nat) :
    List Decl :=
  uniqNVF <| stacks.flatMap fun s => (fallbacks self).flatMap fun fl =>
    let vs := m.versionsOf s n fl
    if vs.isEmpty then [] else
      match tag with
      | none => vs
      | some t => (m.findTagged (allStacks nst) n t self).toList ++ vs.filter fun d => (m.tagsOf d).contains t

/-! ## primitive updates of a `Spec` -/

def Spec.setDecl (c : Spec) (d : Decl) : Spec :=
  { c with decls := d :: c.decls.filter fun x => !(x.sameKey d) }

def Spec.setTag (c : Spec) (r : TagRec) : Spec :=
  { c with tags := r :: c.tags.filter fun x => !(x.sameKey r) }

def Spec.delTag (c : Spec) (s : Nat) (t : Tag) (n : Name) (f : Flav) : Spec :=
  { c with tags := c.tags.filter fun x => !(x.hasKey s t n f) }

/-- remove a declaration and every tag pointing at it -/
def Spec.delDecl (c : Spec) (s : Nat) (n : Name) (v : Ver) (f : Flav) : Spec :=
  { decls := c.decls.filter fun x => !(x.hasKey s n v f),
    tags := c.tags.filter fun x => !(x.pointsAt s n v f) }

/-! ## effects -/

inductive Eff
  /-- `Database.declare(product)` (the flavor's block of the version file, then `product.tags`);
  `ProductStack.addProduct(product)`; `save(flavor)` -/
  | declare (d : Decl) (tag : Option Tag)
  /-- `Database.undeclare(product)` (unassign the tags found on it, remove the flavor's block);
  `ProductStack.removeProduct(name, flavor, version)`; `save(flavor)` -/
  | undeclare (s : Nat) (n : Name) (v : Ver) (f : Flav)
  /-- `Database.assignTag(tag, name, version, flavor)` in the stack of the product;
  `ProductStack.assignTag(...)`; `save(flavor)` -/
  | assign (s : Nat) (t : Tag) (n : Name) (f : Flav) (v : Ver)
  /-- `Database.unassignTag(tag, name, flavor)`; `if ProductStack.unassignTag(...): save(flavor)` -/
  | unassign (s : Nat) (t : Tag) (n : Name) (f : Flav)
  /-- `shutil.rmtree(product.dir)` (`Eups.remove`) -/
  | rmTree (d : Dir)
  /-- `os.makedirs(dirName)` + `utils.copyfile(fileNameIn, pathOut)` into the extra directory (`Eups.declare`) -/
  | copyExtra (x : Extra)
  deriving DecidableEq, Repr

/-- the effect starts with a `Database` mutation (the points where a command can be killed "between the
database update and the cache update") -/
def Eff.isDb : Eff → Bool
  | .rmTree _ => false
  | .copyExtra _ => false
  | _ => true

/-- `Database.assignTag` raises `ProductNotFound` unless the version file declares the flavor -/
def Spec.assign (c : Spec) (s : Nat) (t : Tag) (n : Name) (f : Flav) (v : Ver) : Spec :=
  if c.hasDecl s n v f then c.setTag ⟨s, t, n, f, v⟩ else c

/-- a declaration written together with its tag -/
def Spec.addDecl (c : Spec) (d : Decl) (tag : Option Tag) : Spec :=
  match tag with
  | none => c.setDecl d
  | some t => (c.setDecl d).setTag ⟨d.stack, t, d.name, d.flav, d.ver⟩

/-- what an effect does to the database files (abstractly) -/
def applyDb : Eff → Spec → Spec
  | .declare d tag, c => c.addDecl d tag
  | .undeclare s n v f, c => c.delDecl s n v f
  | .assign s t n f v, c => c.assign s t n f v
  | .unassign s t n f, c => c.delTag s t n f
  | .rmTree _, c => c
  | .copyExtra _, c => c

/-- `ProductFamily.removeVersion` + `ProductStack.removeProduct`: drop the version and the tags naming it
(`fixed`; the pinned code scanned `versions.items()` and dropped none — D1), then drop the family, tags
included, when no version is left. -/
def memRemove (fixed : Bool) (m : Spec) (s : Nat) (n : Name) (v : Ver) (f : Flav) : Spec :=
  if !(m.hasDecl s n v f) then m else
  let decls := m.decls.filter fun x => !(x.hasKey s n v f)
  let tags := if fixed then m.tags.filter fun x => !(x.pointsAt s n v f) else m.tags
  if decls.any fun x => x.stack == s && x.name == n && x.flav == f then ⟨decls, tags⟩
  else ⟨decls, tags.filter fun x => !(x.stack == s && x.name == n && x.flav == f)⟩

/-- the write-through of an effect on the in-memory stacks of the process -/
def applyMemG (fixed : Bool) : Eff → Spec → Spec
  | .declare d tag, m => m.addDecl d tag
  | .undeclare s n v f, m => memRemove fixed m s n v f
  | .assign s t n f v, m => m.assign s t n f v
  | .unassign s t n f, m => m.delTag s t n f
  | .rmTree _, m => m
  | .copyExtra _, m => m

/-- the tree as it is: `ProductFamily.removeVersion` with the D1 repair -/
def applyMem : Eff → Spec → Spec := applyMemG true
/-- the pinned tree's write-through (kept for the witness of D1) -/
def applyMemPinned : Eff → Spec → Spec := applyMemG false

/-- the cache file the effect saves after its write-through, given the in-memory stacks *before* it
(`unassignTag` saves only when the in-memory stack carried the tag) -/
def Eff.saves (m : Spec) : Eff → Option (Nat × Flav)
  | .declare d _ => some (d.stack, d.flav)
  | .undeclare s _ _ f => some (s, f)
  | .assign s _ _ f _ => some (s, f)
  | .unassign s t n f => if m.hasTag s t n f then some (s, f) else none
  | .rmTree _ => none
  | .copyExtra _ => none

/-! ## processes -/

inductive Outcome
  | ok
  | refused      -- `EupsException`
  | notFound     -- `ProductNotFound`
  | failed       -- `RuntimeError` (`remove`: the directory is not there any more)
  | tableMissing -- `TableFileNotFound` (`remove --recursive` reads the table of the product)
  deriving DecidableEq, Repr

/-- A running command: where it started, and what it has done so far. -/
structure Proc where
  db0 : Spec
  mem0 : Spec
  dirs : List DirEnt
  tr : List Eff
  extras : List Extra := []
  tfiles : List TFile := []
  deriving Repr

def Proc.db (p : Proc) : Spec := p.tr.foldl (fun c e => applyDb e c) p.db0
def Proc.mem (p : Proc) : Spec := p.tr.foldl (fun m e => applyMem e m) p.mem0
def Proc.emit (p : Proc) (e : Eff) : Proc := { p with tr := p.tr ++ [e] }

def Proc.dirExists (p : Proc) (d : Dir) : Bool := p.dirs.any fun e => e.dir == d
def Proc.tableExists (p : Proc) (d : Dir) (n : Name) : Bool := p.dirs.any fun e => e.dir == d && e.tname == n

/-- `os.path.join(flavor, productName, versionName)` -/
def relDir (f : Flav) (n : Name) (v : Ver) : Str := f ++ [47] ++ n ++ [47] ++ v

/-! ## table files -/

def sUpsDb : Str := [117, 112, 115, 95, 100, 98]        -- "ups_db"
def sUps : Str := [117, 112, 115]                        -- "ups"
def sDotTable : Str := [46, 116, 97, 98, 108, 101]       -- ".table"

/-- `ups/<name>.table`, below the extra directory of a declaration -/
def tablePathOf (n : Name) : Str := sUps ++ [47] ++ n ++ sDotTable

/-- where an extra file lies: `ups_db/<flavor>/<name>/<version>/<path>` of its stack -/
def Extra.loc (x : Extra) : Dir := ⟨x.stack, sUpsDb ++ [47] ++ relDir x.flav x.name x.ver ++ [47] ++ x.path⟩

/-- where the interned table of a declaration lies -/
def internedLoc (s : Nat) (f : Flav) (n : Name) (v : Ver) : Dir :=
  ⟨s, sUpsDb ++ [47] ++ relDir f n v ++ [47] ++ tablePathOf n⟩

/-- `utils.isSubpath(path, dbpath)` for the database directory of stack `s` (by path components) -/
def underUpsDb (s : Nat) (d : Dir) : Bool := d.root == s && (sUpsDb ++ [47]).isPrefixOf d.rel

/-- content of the file at `d`: a table file kept outside the installation directories, or an extra file -/
def Proc.fileContent (p : Proc) (d : Dir) : Option Nat :=
  match p.tfiles.find? (fun t => t.loc == d) with
  | some t => some t.content
  | none => (p.extras.find? fun x => x.loc == d).map (·.content)

/-- content of the table file a declaration points at (`0`: the table of an installation directory);
`none`: there is no such file -/
def Proc.tableContent (p : Proc) (o : Decl) : Option Nat :=
  match o.table with
  | .default => if p.tableExists o.dir o.name then some 0 else none
  | .none => none
  | .ext d => p.fileContent d
  | .interned => p.fileContent (internedLoc o.stack o.flav o.name o.ver)

/-! ## `Eups.assignTag` -/

/-- `Eups.assignTag(tag, name, version, eupsPathDir, eupsPathDirForRead)`; `stacks` is where the product is
looked for.  No `noaction` guard (observed; reached from the CLI only through `declare`, which guards it). -/
def assignTag (self : Flav) (t : Tag) (n : Name) (v : Ver) (stacks : List Nat) (p : Proc) : Outcome × Proc :=
  match p.mem.findIn stacks n v self with
  | none => (.notFound, p)
  | some prod =>
    if !(p.db.hasDecl prod.stack n v self) then (.notFound, p) else
    (.ok, p.emit (.assign prod.stack t n self v))

/-! ## `Eups.unassignTag` -/

/-- the tail of `Eups.unassignTag` once the stack is known: the dry-run guard, the database, the cache -/
def doUnassign (self : Flav) (t : Tag) (n : Name) (s : Nat) (noaction : Bool) (p : Proc) : Outcome × Proc :=
  if noaction then (.ok, p) else (.ok, p.emit (.unassign s t n self))

def unassignTag (nst : Nat) (self : Flav) (t : Tag) (n : Name) (v : Option Ver) (stack : Option Nat)
    (noaction : Bool) (p : Proc) : Outcome × Proc :=
  match v with
  | some v =>
    match p.mem.findIn (stacksOf nst stack) n v self with
    | none => (.notFound, p)
    | some prod =>
      if (p.mem.tagsOf prod).contains t then doUnassign self t n prod.stack noaction p
      else (.ok, p)                      -- "is not tagged": a message, nothing else
  | none =>
    match stack with
    | some s => doUnassign self t n s noaction p
    | none =>
      match p.mem.findTagged (allStacks nst) n t self with
      | some prod => doUnassign self t n prod.stack noaction p
      | none =>
        if p.mem.anyVersion (allStacks nst) n self then (.ok, p)   -- "Tag is not assigned": a message
        else (.notFound, p)

/-! ## `Eups.declare` -/

/-- the `tablefile` argument: `None`, `"none"`, a path (`-m`), a stream with this content (`-M`) -/
inductive TableArg
  | dflt
  | none
  | path (d : Dir)
  | stream (c : Nat)
  deriving DecidableEq, Repr

structure DeclareArgs where
  self : Flav                 -- flavor of the Eups instance
  name : Name
  ver : Ver
  dir : Option Dir            -- productDir
  stack : Option Nat          -- eupsPathDir
  table : TableArg            -- tablefile
  tag : Option Tag
  force : Bool
  noaction : Bool
  /-- externalFileList: (path below the extra directory, what is copied there) -/
  ext : List (Str × Nat) := []
  deriving Repr

/-- the "Delete all old occurrences of this tag" loop -/
def purge (self : Flav) (t : Tag) (n : Name) : List Decl → Proc → Proc
  | [], p => p
  | d :: ds, p => purge self t n ds (doUnassign self t n d.stack false p).2

/-- "Delete all old occurrences of this tag", stack by stack (each stack is listed after the stacks before
it have been purged; `findProducts` keeps one product per (name, version, flavor), hence not path-wide) -/
def purgeAll (nst : Nat) (self : Flav) (t : Tag) (n : Name) : List Nat → Proc → Proc
  | [], p => p
  | s :: ss, p => purgeAll nst self t n ss (purge self t n (findProducts p.mem nst self n (some t) [s]) p)

/-- redeclaration check: what `declare` decides about the version record -/
inductive Redeclare
  | write        -- dodeclare
  | keep         -- nothing to change / "I'll only declare the tag"
  | refuse
  deriving DecidableEq, Repr

/-- `if full_tablefile: if _tablefile and tablefile != _tablefile: filecmp.cmp(...)`: the call names a table
file (content `new`) and the declared one is another file with other content, or is not there -/
def tableDiff (old new : Option Nat) : Bool :=
  match new with
  | some c => old != some c
  | none => false

def redeclare (old : Option Decl) (oldContent : Option Nat) (d : Dir) (newContent : Option Nat)
    (hasTag force : Bool) (extDiff : Bool := false) : Redeclare :=
  match old with
  | none => .write
  | some o =>
    if force then .write else
    if o.dir != d || tableDiff oldContent newContent || extDiff then
      (if hasTag then .keep else .refuse)
    else .keep

/-- what the argument handling of `declare` settles before anything is checked against the database -/
structure Resolved where
  d : Dir                -- productDir
  table : Table
  target : Nat           -- eupsPathDir (= eupsPathDirForRead: every stack is writable)
  /-- content of the table file the call names (`full_tablefile`); `none`: no file to compare -/
  content : Option Nat := none
  /-- externalFileList as the redeclaration check sees it -/
  diffList : List (Str × Nat) := []
  /-- the files the save loop copies -/
  saveList : List (Str × Nat) := []
  deriving DecidableEq, Repr

/-- the tag asked for, or `current` for the first version of the product (l.2538) -/
def declareTag (nst : Nat) (a : DeclareArgs) (m : Spec) : Option Tag :=
  match a.tag with
  | some t => some t
  | none => if (findProducts m nst a.self a.name none (allStacks nst)).isEmpty then some current else none

/-- the stack a declaration goes to: the one given, else the one holding the directory, else the first
writable one (l.2381-2404) -/
def targetOf (nst : Nat) (a : DeclareArgs) (d : Dir) : Nat :=
  match a.stack with
  | some s => s
  | none => if d.root < nst then d.root else 0

/-- `tablefile = info.tablefile`: the resolved path of the table file of the declaration found -/
def inheritTable (i : Decl) : TableArg :=
  match i.table with
  | .default => .dflt          -- `<dir>/ups/<name>.table` of the same directory
  | .none => .none
  | .ext d => .path d
  | .interned => .path (internedLoc i.stack i.flav i.name i.ver)

/-- directory and table argument of `Eups.declare` (l.2326-2380); `none`: one of the `EupsException`s raised there -/
def resolveDirTable (nst : Nat) (a : DeclareArgs) (p : Proc) : Option (Dir × TableArg) :=
  let m := p.mem
  -- `if tag and (not productDir or not tablefile)`: look the product up, native flavor first
  let info : Option Decl :=
    if a.tag.isSome && (a.dir.isNone || a.table == .dflt) then
      (fallbacks a.self).findSome? fun fl => m.findIn (stacksOf nst a.stack) a.name a.ver fl
    else none
  let dir1 : Option Dir := match a.dir with
    | some d => some d
    | none => info.map (·.dir)
  let table : TableArg :=
    if a.table != .dflt then a.table else
    match info, dir1 with
    | some i, some d => if d = i.dir then inheritTable i else .dflt
    | _, _ => .dflt
  -- "Look for productDir on self.path"
  let dir2 : Option Dir := match dir1 with
    | some d => some d
    | none => (allStacks nst).findSome? fun s => (fallbacks a.self).findSome? fun fl =>
        let d : Dir := ⟨s, relDir fl a.name a.ver⟩
        if p.dirExists d then some d else none
  match dir2 with
  | none => none                                    -- "Please specify a productDir"
  | some d =>
    if !(p.dirExists d) then none else              -- "is not a directory"
    some (d, table)

/-- `glob(<extra directory>/ups/*)`: the extra files of the declaration that lie directly in `ups/` -/
def internedFiles (p : Proc) (a : DeclareArgs) (target : Nat) : List (Str × Nat) :=
  (p.extras.filter fun x => x.stack == target && x.flav == a.self && x.name == a.name && x.ver == a.ver &&
      (sUps ++ [47]).isPrefixOf x.path && !(x.path.drop 4).contains 47).map fun x => (x.path, x.content)

/-- the table file once the stack is known (l.2427-2525): a stream is saved beside the external files and
interned (its content is compared only as an external file, when the extra directory exists); a path below the database directory of the stack is taken for an interned table, together with
what lies beside it; any other table file must exist.  `none`: "tablefile does not exist" -/
def classifyTable (a : DeclareArgs) (d : Dir) (target : Nat) (t : TableArg) (p : Proc) : Option Resolved :=
  match t with
  | .none => some ⟨d, .none, target, none, a.ext, a.ext⟩
  | .dflt => if p.tableExists d a.name then some ⟨d, .default, target, some 0, a.ext, a.ext⟩ else none
  | .stream c =>
    let l := a.ext ++ [(tablePathOf a.name, c)]
    some ⟨d, .interned, target, none, l, l⟩      -- `full_tablefile = None` for an interned table: only the extra files are compared (D39)
  | .path q =>
    if underUpsDb target q then some ⟨d, .interned, target, none, a.ext ++ internedFiles p a target, a.ext⟩ else
    match p.fileContent q with
    | some c => some ⟨d, .ext q, target, some c, a.ext, a.ext⟩
    | none => none

/-- argument resolution of `Eups.declare`: directory, table, stack -/
def resolveDeclare (nst : Nat) (a : DeclareArgs) (p : Proc) : Option Resolved :=
  match resolveDirTable nst a p with
  | none => none
  | some (d, t) => classifyTable a d (targetOf nst a d) t p

/-- "check external files" (l.2568-2588): the extra directory of the declaration exists and its content is not
what the call lists — a file to add, a file with other content, a file that is not being replaced -/
def extDiff (p : Proc) (a : DeclareArgs) (target : Nat) (l : List (Str × Nat)) : Bool :=
  let mine := p.extras.filter fun x => x.stack == target && x.flav == a.self && x.name == a.name && x.ver == a.ver
  !mine.isEmpty &&
    (l.any (fun e => !(mine.any fun x => x.path == e.1 && x.content == e.2)) ||
     mine.any (fun x => !(l.any fun e => e.1 == x.path)))

/-- "Save extra files in the extra directory" (l.2706-2722), past the dry-run guards -/
def saveExtras (a : DeclareArgs) (target : Nat) : List (Str × Nat) → Proc → Proc
  | [], p => p
  | e :: es, p => saveExtras a target es (p.emit (.copyExtra ⟨target, a.self, a.name, a.ver, e.1, e.2⟩))

/-- the version record, then the tag (l.2634-2702) -/
def declareCore (nst : Nat) (a : DeclareArgs) (r : Resolved) (tag : Option Tag) (rd : Redeclare) (p : Proc) :
    Outcome × Proc :=
  let p1 : Proc :=
    if rd == .write && !a.noaction then
      p.emit (.declare ⟨r.target, a.name, a.ver, a.self, r.d, r.table⟩ tag)
    else p
  match tag with
  | none => (.ok, p1)
  | some t =>
    if a.noaction then (.ok, p1) else
    assignTag a.self t a.name a.ver [r.target] (purgeAll nst a.self t a.name (allStacks nst) p1)

/-- the part of `declare` that acts (l.2634-2724): the version record, the tag, then the extra files -/
def declareFinish (nst : Nat) (a : DeclareArgs) (r : Resolved) (tag : Option Tag) (rd : Redeclare) (p : Proc) :
    Outcome × Proc :=
  match declareCore nst a r tag rd p with
  | (.ok, p2) => if a.noaction then (.ok, p2) else (.ok, saveExtras a r.target r.saveList p2)
  | x => x

def declare (nst : Nat) (a : DeclareArgs) (p : Proc) : Outcome × Proc :=
  match resolveDeclare nst a p with
  | none => (.refused, p)
  | some r =>
    let tag := declareTag nst a p.mem
    let old := p.mem.findDecl r.target a.name a.ver a.self
    match redeclare old (old.bind p.tableContent) r.d r.content tag.isSome a.force
        (extDiff p a r.target r.diffList) with
    | .refuse => (.refused, p)                     -- "Redeclaring ...; specify force to proceed"
    | rd => declareFinish nst a r tag rd p

/-! ## `Eups.undeclare` -/

structure UndeclareArgs where
  self : Flav
  name : Name
  ver : Option Ver
  stack : Option Nat
  tag : Option Tag
  versionAndTag : Bool        -- undeclareVersionAndTag
  noaction : Bool
  force : Bool
  /-- `SETUP_<NAME>` in the environment of the command: "name version -f flavor -Z stack" -/
  setup : Option (Ver × Flav × Nat)
  deriving Repr

/-- `Eups.isSetup(product)` for the product found in stack `s`: the environment says a version of the product
is set up, that version is found (through the view) in the stack and flavor the environment names, and it is
this stack and this version — whatever the flavor -/
def isSetup (a : UndeclareArgs) (m : Spec) (s : Nat) (v : Ver) : Bool :=
  match a.setup with
  | none => false
  | some (sv, sf, ss) => (m.findDecl ss a.name sv sf).isSome && ss == s && sv == v

/-- `if not versionName`: the version is inferred when the listing of the product has one entry -/
def inferVersion (nst : Nat) (a : UndeclareArgs) (ver : Option Ver) (m : Spec) : Except Outcome Ver :=
  match ver with
  | some v => .ok v
  | none =>
    match findProducts m nst a.self a.name none (stacksOf nst a.stack) with
    | [] => .error .notFound
    | [d] => .ok d.ver
    | _ => .error .refused                -- "has versions ...; please choose one"

/-- `if tag: self.unassignTag(tag, productName, versionName, eupsPathDir)` (its outcome is not looked at) -/
def untagFirst (nst : Nat) (a : UndeclareArgs) (v : Ver) (s : Nat) (p : Proc) : Proc :=
  match a.tag with
  | some t => (unassignTag nst a.self t a.name (some v) (some s) a.noaction p).2
  | none => p

/-- the dry-run guard and what follows it: `Database.undeclare`, the cache -/
def removeVersion (a : UndeclareArgs) (v : Ver) (s : Nat) (p : Proc) : Outcome × Proc :=
  if a.noaction then (.ok, p) else
  if !(p.db.hasDecl s a.name v a.self) then (.notFound, p) else   -- `Database.undeclare` found nothing
  (.ok, p.emit (.undeclare s a.name v a.self))

/-- the part of `Eups.undeclare` after the tag-only exit -/
def undeclareVersion (nst : Nat) (a : UndeclareArgs) (ver : Option Ver) (p : Proc) : Outcome × Proc :=
  match inferVersion nst a ver p.mem with
  | .error o => (o, p)
  | .ok v =>
    match p.mem.findIn (stacksOf nst a.stack) a.name v a.self with
    | none => (.notFound, p)
    | some prod =>
      if isSetup a p.mem prod.stack v && !a.force then (.refused, p) else   -- "is already setup; specify force"
      removeVersion a v prod.stack (untagFirst nst a v prod.stack p)

def undeclare (nst : Nat) (a : UndeclareArgs) (p : Proc) : Outcome × Proc :=
  match a.tag with
  | none => undeclareVersion nst a a.ver p
  | some t =>
    if a.versionAndTag then
      let ver : Option Ver := match a.ver with
        | some v => some v
        | none =>
          match findProducts p.mem nst a.self a.name (some t) (stacksOf nst a.stack) with
          | [d] => some d.ver
          | _ => none
      undeclareVersion nst a ver p
    else unassignTag nst a.self t a.name a.ver a.stack a.noaction p

/-! ## `Eups.remove`, one product -/

/-- `Eups.remove(name, version, recursive)` with `checkRecursive=False`: `_remove` finds the product
(native flavor, whole path), `undeclare(name, version)` undeclares it, then the directory goes — or, in a
dry run, "rm -rf" is printed.  (The recursive collection and the in-use check are C14's `Remove` model; this
is its per-product step.) -/
def remove (nst : Nat) (self : Flav) (n : Name) (v : Ver) (recursive noaction force : Bool)
    (setup : Option (Ver × Flav × Nat)) (p : Proc) : Outcome × Proc :=
  match p.mem.findIn (allStacks nst) n v self with
  | none => (.notFound, p)
  | some prod =>
    -- `recursive`: `_remove` reads `product.getTable()` (the universes' tables declare no dependencies)
    if recursive && prod.table != .none && (p.tableContent prod).isNone then (.tableMissing, p) else
    match undeclare nst ⟨self, n, some v, none, none, false, noaction, force, setup⟩ p with
    | (.ok, p1) =>
      if noaction then (.ok, p1) else
      if p.dirExists prod.dir then (.ok, p1.emit (.rmTree prod.dir)) else (.failed, p1)   -- `rmtree` raised
    | r => r

/-! ## commands -/

inductive Cmd
  | declare (a : DeclareArgs)
  | undeclare (a : UndeclareArgs)
  | assignTag (self : Flav) (t : Tag) (n : Name) (v : Ver) (stack : Option Nat)
  | unassignTag (self : Flav) (t : Tag) (n : Name) (v : Option Ver) (stack : Option Nat) (noaction : Bool)
  | remove (self : Flav) (n : Name) (v : Ver) (recursive noaction force : Bool) (setup : Option (Ver × Flav × Nat))
  | query (self : Flav)
  deriving Repr

/-- flavor of the `Eups` instance that runs the command -/
def Cmd.self : Cmd → Flav
  | .declare a => a.self
  | .undeclare a => a.self
  | .assignTag f .. => f
  | .unassignTag f .. => f
  | .remove f .. => f
  | .query f => f

def Cmd.noaction : Cmd → Bool
  | .declare a => a.noaction
  | .undeclare a => a.noaction
  | .assignTag .. => false
  | .unassignTag _ _ _ _ _ na => na
  | .remove _ _ _ _ na _ _ => na
  | .query _ => true

def run (nst : Nat) (c : Cmd) (p : Proc) : Outcome × Proc :=
  match c with
  | .declare a => declare nst a p
  | .undeclare a => undeclare nst a p
  | .assignTag f t n v st => assignTag f t n v (stacksOf nst st) p
  | .unassignTag f t n v st na => unassignTag nst f t n v st na p
  | .remove f n v rc na fo su => remove nst f n v rc na fo su p
  | .query _ => (.ok, p)

/-! ## what a dry run says it would do -/

/-- the messages a command prints under `noaction` (l.2634-2650, 2682-2684, 2236, 2813-2815, 3291) -/
inductive Msg
  | declaring (s : Nat) (tag : Option Tag)   -- "Declaring directory ... as n v [tag] in <stack>"
  | assigning (t : Tag)                      -- "Assigning tag "t" to n v"
  | untag (t : Tag)                          -- "eups undeclare --tag t n"
  | removing (v : Ver) (s : Nat)             -- "Removing n v from version list for <stack>"
  | rmrf (d : Dir)                           -- "rm -rf <dir>"
  | copy (path : Str)                        -- "cp <file> <extra directory>/<path>"
  deriving DecidableEq, Repr

/-- does `unassignTag` get as far as its dry-run message -/
def saysUntag (nst : Nat) (self : Flav) (t : Tag) (n : Name) (v : Option Ver) (stack : Option Nat) (m : Spec) : Bool :=
  match v with
  | some v =>
    match m.findIn (stacksOf nst stack) n v self with
    | none => false
    | some prod => (m.tagsOf prod).contains t
  | none =>
    match stack with
    | some _ => true
    | none => (m.findTagged (allStacks nst) n t self).isSome

def sayUndeclareVersion (nst : Nat) (a : UndeclareArgs) (ver : Option Ver) (m : Spec) : List Msg × Option Decl :=
  match inferVersion nst a ver m with
  | .error _ => ([], none)
  | .ok v =>
    match m.findIn (stacksOf nst a.stack) a.name v a.self with
    | none => ([], none)
    | some prod =>
      if isSetup a m prod.stack v && !a.force then ([], none) else
      ((match a.tag with
        | some t => if saysUntag nst a.self t a.name (some v) (some prod.stack) m then [.untag t] else []
        | none => []) ++ [.removing v prod.stack], some prod)

/-- what the command, run with `noaction`, reports (`Eups(noaction=True)` prints it and changes nothing) -/
def wouldDo (nst : Nat) (c : Cmd) (p : Proc) : List Msg :=
  let m := p.mem
  match c with
  | .declare a =>
    match resolveDeclare nst a p with
    | none => []
    | some r =>
      let tag := declareTag nst a m
      let old := m.findDecl r.target a.name a.ver a.self
      match redeclare old (old.bind p.tableContent) r.d r.content tag.isSome a.force
          (extDiff p a r.target r.diffList) with
      | .refuse => []
      | rd => (if rd == .write then [.declaring r.target tag] else []) ++
              (match tag with | some t => [.assigning t] | none => []) ++ r.saveList.map (fun e => .copy e.1)
  | .undeclare a =>
    match a.tag with
    | none => (sayUndeclareVersion nst a a.ver m).1
    | some t =>
      if a.versionAndTag then
        let ver : Option Ver := match a.ver with
          | some v => some v
          | none =>
            match findProducts m nst a.self a.name (some t) (stacksOf nst a.stack) with
            | [d] => some d.ver
            | _ => none
        (sayUndeclareVersion nst a ver m).1
      else if saysUntag nst a.self t a.name a.ver a.stack m then [.untag t] else []
  | .unassignTag f t n v st _ => if saysUntag nst f t n v st m then [.untag t] else []
  | .remove f n v rc _ fo su =>
    match m.findIn (allStacks nst) n v f with
    | none => []
    | some prod =>
      if rc && prod.table != .none && (p.tableContent prod).isNone then [] else
      match sayUndeclareVersion nst ⟨f, n, some v, none, none, false, true, fo, su⟩ (some v) m with
      | (msgs, some _) => msgs ++ [.rmrf prod.dir]
      | (msgs, none) => msgs
  | _ => []

end EupsModel.Db
