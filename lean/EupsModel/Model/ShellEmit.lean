import EupsModel.Model.Env
/-! C05 — model of the emission of shell commands by `eups.app.setup` (python/eups/app.py, the loops after
`eupsenv.setup(...)` returned ok) and a word-level model of what an sh-family shell does with such text.

* `emit`     : the command list exactly as `app.setup` builds it from `(oldEnviron, os.environ, aliases, oldAliases)`;
* `envSetAct`/`pathAct` : what `execute_envSet` / `execute_envPrepend` do to `(oldEnviron, os.environ)` (the `--force`
  bookkeeping of table.py; the value is the already expanded one — expansion itself is C12's model);
* `shEval`   : environment after an sh-family shell has evaluated a text of the fragment (single quotes literal,
  unquoted safe characters literal, blanks separate words, `;`/newline separate commands, the commands
  `export`, `unset`, `true`, `false`, `:`); everything else is outside the fragment: `none`. -/
namespace EupsModel.ShellEmit

/-! ## characters -/

/-- Python 3 `\s` on `str` (all code points for which `re.match(r"\s", chr(c))`). -/
def isPySpace (c : Nat) : Bool :=
  (9 ≤ c && c ≤ 13) || (28 ≤ c && c ≤ 32) || c == 0x85 || c == 0xa0 || c == 0x1680 ||
  (0x2000 ≤ c && c ≤ 0x200a) || c == 0x2028 || c == 0x2029 || c == 0x202f || c == 0x205f || c == 0x3000

/-- the emitter's pattern `[\s<>|&;()]` -/
def needsQuote (c : Nat) : Bool :=
  isPySpace c || c == 60 || c == 62 || c == 124 || c == 38 || c == 59 || c == 40 || c == 41

/-- `'` or `"` -/
def isQuoteCh (c : Nat) : Bool := c == 39 || c == 34

/-- characters an sh-family shell takes literally outside quotes: `[A-Za-z0-9/._:+=,@%^-]` -/
def isSafe (c : Nat) : Bool :=
  Str.isAlnum c || c == 47 || c == 46 || c == 95 || c == 58 || c == 43 || c == 61 || c == 44 || c == 64 ||
  c == 37 || c == 94 || c == 45

/-- the shell metacharacters of the claim: space, tab, newline and `< > | & ; ( )` -/
def isShMeta (c : Nat) : Bool :=
  c == 32 || c == 9 || c == 10 || c == 60 || c == 62 || c == 124 || c == 38 || c == 59 || c == 40 || c == 41

/-- identifier `[A-Za-z_][A-Za-z0-9_]*` -/
def isIdent : Str → Bool
  | [] => false
  | c :: r => (Str.isAlpha c || c == 95) && r.all (fun d => Str.isAlnum d || d == 95)

/-! ## the emitter -/

/-- rest of `^['"].*['"]$` after the first character: `.*` does not cross a newline, `$` also matches
before a final newline -/
def wrappedTail : Str → Bool
  | [] => false
  | c :: r => (isQuoteCh c && (r == [] || r == [10])) || (c != 10 && wrappedTail r)

/-- `re.search(r"^['\"].*['\"]$", val)` -/
def wrapped : Str → Bool
  | [] => false
  | c :: r => isQuoteCh c && wrappedTail r

/-- the value as written after `export K=`: quoted iff non-empty, not already quote-wrapped, and containing a
character of `[\s<>|&;()]` -/
def emitVal (v : Str) : Str :=
  if !v.isEmpty && !wrapped v && v.any needsQuote then 39 :: (v ++ [39]) else v

inductive Shell | sh | zsh | csh
  deriving DecidableEq, Repr

structure Opts where
  shell : Shell := .sh
  noaction : Bool := false
  /-- `eupsenv.verbose >= 2` -/
  verbose2 : Bool := false
  /-- `productName == "eups"` -/
  isEups : Bool := false
  fwd : Bool := true

/-- one emitted command, before rendering -/
inductive Cmd
  | setVar (k v : Str)
  | unsetVar (k : Str)
  | aliasDef (k v : Str)
  | aliasDel (k : Str)
  deriving DecidableEq, Repr

def sExport : Str := [101, 120, 112, 111, 114, 116]            -- export
def sUnset : Str := [117, 110, 115, 101, 116]                   -- unset
def sSetenv : Str := [115, 101, 116, 101, 110, 118]             -- setenv
def sUnsetenv : Str := [117, 110, 115, 101, 116, 101, 110, 118] -- unsetenv
def sAlias : Str := [97, 108, 105, 97, 115]                     -- alias
def sUnalias : Str := [117, 110, 97, 108, 105, 97, 115]         -- unalias
def sDashF : Str := [45, 102]                                   -- -f
def sTrue : Str := [116, 114, 117, 101]
def sFalse : Str := [102, 97, 108, 115, 101]
def sColon : Str := [58]
def sSETUP_ : Str := [83, 69, 84, 85, 80, 95]
def sEUPS_DIR : Str := [69, 85, 80, 83, 95, 68, 73, 82]
def sEUPS_PATH : Str := [69, 85, 80, 83, 95, 80, 65, 84, 72]
def sEUPS_PKGROOT : Str := [69, 85, 80, 83, 95, 80, 75, 71, 82, 79, 79, 84]
def sEUPS_SHELL : Str := [69, 85, 80, 83, 95, 83, 72, 69, 76, 76]

/-- `re.search(r"^EUPS_(DIR|PATH|PKGROOT|SHELL)$", key)` (`$` also matches before a final newline) -/
def isProtected (k : Str) : Bool :=
  [sEUPS_DIR, sEUPS_PATH, sEUPS_PKGROOT, sEUPS_SHELL].any fun p => k == p || k == p ++ [10]

/-- `re.search(pat, s)` for a literal pattern -/
def containsSub (pat : Str) : Str → Bool
  | [] => pat.isEmpty
  | c :: r => pat.isPrefixOf (c :: r) || containsSub pat r

/-- `re.sub(r'"?\$@"?', r"\!*", value)` (csh aliases) -/
def cshArgs : Str → Str
  | [] => []
  | 34 :: 36 :: 64 :: 34 :: r => 92 :: 33 :: 42 :: cshArgs r
  | 34 :: 36 :: 64 :: r => 92 :: 33 :: 42 :: cshArgs r
  | 36 :: 64 :: 34 :: r => 92 :: 33 :: 42 :: cshArgs r
  | 36 :: 64 :: r => 92 :: 33 :: 42 :: cshArgs r
  | c :: r => c :: cshArgs r

/-- `re.sub("`", r"\`", cmd)` -/
def escBackquote (s : Str) : Str := s.flatMap fun c => if c == 96 then [92, 96] else [c]

/-- `Eups.oldEnviron`: the caller's environment; `--force` replaces a value by `None` ("forget the value, so that
the variable is exported whatever its new value; remember that it existed, so that it is unset if it disappears") -/
abbrev OldEnv := List (Str × Option Str)

namespace OldEnv
def ofEnv (e : Env) : OldEnv := e.map fun (k, v) => (k, some v)
/-- `oldEnviron[key]` (`none` = `KeyError`) -/
def lookup (o : OldEnv) (k : Str) : Option (Option Str) :=
  match o with
  | [] => none
  | (k', v) :: rest => if k' = k then some v else lookup rest k
/-- `if key in oldEnviron: oldEnviron[key] = None` -/
def forget (o : OldEnv) (k : Str) : OldEnv := o.map fun (k', v) => if k' = k then (k', none) else (k', v)
/-- the pinned tree's `if key in oldEnviron: del oldEnviron[key]` -/
def erase (o : OldEnv) (k : Str) : OldEnv := o.filter fun p => p.1 ≠ k
end OldEnv

/-- the three variables dropped from `os.environ` by `unsetup eups` before the commands are computed -/
def finalEnv (o : Opts) (new : Env) : Env :=
  if !o.fwd && o.isEups then ((new.unset sEUPS_PATH).unset sEUPS_PKGROOT).unset sEUPS_SHELL else new

/-- under `-n` the `SETUP_…` variables are hidden unless `-vv` -/
def hidden (o : Opts) (k : Str) : Bool := o.noaction && !o.verbose2 && containsSub sSETUP_ k

/-- body of the loop over `os.environ.items()` -/
def setCmd? (o : Opts) (old : OldEnv) (p : Str × Str) : Option Cmd :=
  if old.lookup p.1 == some (some p.2) then none else if hidden o p.1 then none else some (Cmd.setVar p.1 p.2)

/-- body of the loop over `oldEnviron.keys()` -/
def unsetCmd? (o : Opts) (new : Env) (p : Str × Option Str) : Option Cmd :=
  if !o.isEups && isProtected p.1 then none
  else if new.has p.1 then none
  else if hidden o p.1 then none
  else some (Cmd.unsetVar p.1)

/-- the two loops over `os.environ.items()` and `oldEnviron.keys()`; `new` is the environment both loops see
(for `unsetup eups`: after the three variables have been dropped, `finalEnv`) -/
def emitVarsOn (o : Opts) (old : OldEnv) (new : Env) : List Cmd :=
  new.filterMap (setCmd? o old) ++ old.filterMap (unsetCmd? o new)

def emitVars (o : Opts) (old : OldEnv) (new : Env) : List Cmd := emitVarsOn o old (finalEnv o new)

/-- the two loops over `aliases` and `oldAliases` (`oldAliases[key] = None` after `unsetAlias`) -/
def emitAliases (aliases : List (Str × Str)) (oldAliases : List (Str × Option Str)) : List Cmd :=
  (aliases.filterMap fun (k, v) =>
    if (oldAliases.find? (·.1 == k)).map (·.2) == some (some v) then none else some (Cmd.aliasDef k v)) ++
  (oldAliases.filterMap fun (k, _) => if aliases.any (·.1 == k) then none else some (Cmd.aliasDel k))

def echoWrap (o : Opts) (s : Str) : Str := if o.noaction then [101, 99, 104, 111, 32, 34] ++ s ++ [34] else s

/-- rendering of one command for the shell dialect; `none` = the code's behaviour is not modelled
(`zsh` has no branch of its own in the alias loop: the command text is whatever an earlier iteration left) -/
def render (o : Opts) : Cmd → Option Str
  | .setVar k v =>
    match o.shell with
    | .csh => some (echoWrap o (sSetenv ++ [32] ++ k ++ [32] ++ emitVal v))
    | _ => some (echoWrap o (sExport ++ [32] ++ k ++ [61] ++ emitVal v))
  | .unsetVar k =>
    match o.shell with
    | .csh => some (echoWrap o (sUnsetenv ++ [32] ++ k))
    | _ => some (echoWrap o (sUnset ++ [32] ++ k))
  | .aliasDef k v =>
    match o.shell with
    | .sh => some (if o.noaction then echoWrap o (escBackquote (k ++ [40, 41, 32, 123, 32] ++ v ++ [32, 59, 32, 125]))
                   else k ++ [40, 41, 32, 123, 32] ++ v ++ [32, 59, 32, 125])
    | .csh => some (if o.noaction then echoWrap o (escBackquote (sAlias ++ [32] ++ k ++ [32, 39] ++ cshArgs v ++ [39]))
                    else sAlias ++ [32] ++ k ++ [32, 39] ++ cshArgs v ++ [39])
    | .zsh => none
  | .aliasDel k =>
    match o.shell with
    | .csh => some (echoWrap o (sUnalias ++ [32] ++ k))
    | _ => some (echoWrap o (sUnset ++ [32] ++ sDashF ++ [32] ++ k))

/-- all commands of a successful `app.setup`, in order -/
def emitCmds (o : Opts) (old : OldEnv) (new : Env) (aliases : List (Str × Str)) (oldAliases : List (Str × Option Str)) :
    List Cmd :=
  emitVars o old new ++ emitAliases aliases oldAliases

def emit (o : Opts) (old : OldEnv) (new : Env) (aliases : List (Str × Str)) (oldAliases : List (Str × Option Str)) :
    Option (List Str) :=
  (emitCmds o old new aliases oldAliases).mapM (render o)

/-- `";\n".join(cmds)` (setupcmd.py) -/
def join : List Str → Str
  | [] => []
  | [c] => c
  | c :: r => c ++ [59, 10] ++ join r

/-- the alias-free `sh` emission as one text: what `C05_roundtrip` is about -/
def emitText (old : OldEnv) (new : Env) : Str :=
  join ((emitVars {} old new).filterMap (render {}))

/-! ## `--force` bookkeeping of the table actions on `(oldEnviron, os.environ)` -/

/-- what `pushStack("env")` saves: `(os.environ, aliases, oldAliases)` -/
structure Saved where
  cur : Env
  aliases : List (Str × Str)
  oldAliases : List (Str × Option Str)
  deriving DecidableEq, Repr

structure SetupSt where
  old : OldEnv
  cur : Env
  /-- `Eups.aliases` -/
  aliases : List (Str × Str) := []
  /-- `Eups.oldAliases` (`None` after `unsetAlias`) -/
  oldAliases : List (Str × Option Str) := []
  /-- `Eups._stacks["env"]`: `(os.environ, aliases, oldAliases)` saved by `pushStack("env")`, top first.  `oldEnviron`
  is not part of what is saved. -/
  stack : List Saved := []
  deriving DecidableEq, Repr

/-- `execute_envSet` with the expanded value `v` (`[]`: the expansion came back empty and the action returns
early).  With `--force` the old value is forgotten, in both directions, before anything else. -/
def envSetAct (force fwd : Bool) (k v : Str) (s : SetupSt) : SetupSt :=
  let old' := if force then s.old.forget k else s.old
  if fwd then
    if v.isEmpty then { s with old := old' } else { s with old := old', cur := s.cur.set k v }
  else { s with old := old', cur := s.cur.unset k }

/-- the pinned `execute_envSet`: the `oldEnviron` entry is deleted -/
def envSetActPinned (force fwd : Bool) (k v : Str) (s : SetupSt) : SetupSt :=
  let old' := if force then s.old.erase k else s.old
  if fwd then
    if v.isEmpty then { s with old := old' } else { s with old := old', cur := s.cur.set k v }
  else { s with old := old', cur := s.cur.unset k }

/-- `execute_envPrepend` with the resulting path string `v` (always set, in both directions) -/
def pathAct (force : Bool) (k v : Str) (s : SetupSt) : SetupSt :=
  { s with old := if force then s.old.forget k else s.old, cur := s.cur.set k v }

/-- the pinned `execute_envPrepend` -/
def pathActPinned (force : Bool) (k v : Str) (s : SetupSt) : SetupSt :=
  { s with old := if force then s.old.erase k else s.old, cur := s.cur.set k v }

/-- `execute_envUnset` / `Eups.unsetEnv` -/
def unsetAct (k : Str) (s : SetupSt) : SetupSt := { s with cur := s.cur.unset k }

/-- `execute_addAlias`: `Eups.setAlias` / `Eups.unsetAlias`, and under `--force` the old alias is forgotten first -/
def aliasAct (force fwd : Bool) (k v : Str) (s : SetupSt) : SetupSt :=
  let oa := if force then s.oldAliases.filter (fun p => p.1 ≠ k) else s.oldAliases
  if fwd then
    { s with oldAliases := oa,
             aliases := if s.aliases.any (·.1 == k) then s.aliases.map (fun p => if p.1 = k then (k, v) else p)
                        else s.aliases ++ [(k, v)] }
  else
    { s with aliases := s.aliases.filter (fun p => p.1 ≠ k),
             oldAliases := if oa.any (·.1 == k) then oa.map (fun p => if p.1 = k then (k, none) else p)
                           else oa ++ [(k, none)] }

/-- `pushStack("env")` (before an optional or nested setup) -/
def pushAct (s : SetupSt) : SetupSt := { s with stack := ⟨s.cur, s.aliases, s.oldAliases⟩ :: s.stack }

/-- `popStack("env")`: the setup failed, its changes to `os.environ`, `aliases` and `oldAliases` are thrown away —
what `--force` made `oldEnviron` forget stays forgotten (a pop on an empty stack is a programming error: no change) -/
def popAct (s : SetupSt) : SetupSt :=
  match s.stack with
  | [] => s
  | top :: r => { s with cur := top.cur, aliases := top.aliases, oldAliases := top.oldAliases, stack := r }

/-- `dropStack("env")`: the setup succeeded, the saved state is discarded -/
def dropAct (s : SetupSt) : SetupSt := { s with stack := s.stack.drop 1 }

inductive Act
  | envSet (force fwd : Bool) (k v : Str)
  | path (force : Bool) (k v : Str)
  | unset (k : Str)
  | alias (force fwd : Bool) (k v : Str)
  | push
  | pop
  | drop
  deriving DecidableEq, Repr

def Act.run (pinned : Bool) : Act → SetupSt → SetupSt
  | .envSet f d k v, s => if pinned then envSetActPinned f d k v s else envSetAct f d k v s
  | .path f k v, s => if pinned then pathActPinned f k v s else pathAct f k v s
  | .unset k, s => unsetAct k s
  | .alias f d k v, s => aliasAct f d k v s
  | .push, s => pushAct s
  | .pop, s => popAct s
  | .drop, s => dropAct s

def runActs (pinned : Bool) (acts : List Act) (base : Env) : SetupSt :=
  acts.foldl (fun s a => a.run pinned s) { old := OldEnv.ofEnv base, cur := base }

/-! ## the shell -/

structure Sh where
  env : Env
  /-- finished words of the command being read -/
  args : List Str
  /-- the word being read (`some []` after `''`) -/
  cur : Option Str
  /-- inside single quotes -/
  inq : Bool
  deriving DecidableEq, Repr

def clean (env : Env) : Sh := { env := env, args := [], cur := none, inq := false }

def push (cur : Option Str) (c : Nat) : Option Str := some (cur.getD [] ++ [c])

def endWord (st : Sh) : Sh :=
  match st.cur with
  | none => st
  | some w => { st with args := st.args ++ [w], cur := none }

/-- `NAME=VALUE` split at the first `=` -/
def splitEq : Str → Option (Str × Str)
  | [] => none
  | c :: r => if c == 61 then some ([], r) else (splitEq r).map fun p => (c :: p.1, p.2)

def exportArg (env : Env) (w : Str) : Option Env :=
  match splitEq w with
  | some (k, v) => if isIdent k then some (env.set k v) else none
  | none => if isIdent w then some env else none

def unsetArg (env : Env) (w : Str) : Option Env := if isIdent w then some (env.unset w) else none

/-- one simple command on the (exported) environment -/
def exec (env : Env) : List Str → Option Env
  | [] => some env
  | w :: args =>
    if w == sExport then (if args.isEmpty then none else args.foldlM exportArg env)
    else if w == sUnset then
      (if args.head? == some sDashF then (if (args.drop 1).all isIdent then some env else none)   -- functions only
       else args.foldlM unsetArg env)
    else if w == sTrue || w == sFalse || w == sColon then some env
    else none

def stepChar (st : Sh) (c : Nat) : Option Sh :=
  if st.inq then
    if c == 39 then some { st with inq := false } else some { st with cur := push st.cur c }
  else if c == 39 then some { st with inq := true, cur := some (st.cur.getD []) }
  else if c == 32 || c == 9 then some (endWord st)
  else if c == 10 then (exec st.env (endWord st).args).map clean
  else if c == 59 then
    let st' := endWord st
    if st'.args.isEmpty then none else (exec st.env st'.args).map clean
  else if isSafe c then some { st with cur := push st.cur c }
  else none

def feed (st : Sh) (text : Str) : Option Sh := text.foldlM stepChar st

def finish (st : Sh) : Option Env := if st.inq then none else exec st.env (endWord st).args

/-- environment after the shell, started with `env`, has evaluated `text`; `none` = outside the fragment -/
def shEval (env : Env) (text : Str) : Option Env := (feed (clean env) text).bind finish

/-! ## the shell, second layer: function definitions, `echo`, double quotes, exit status

What `app.setup` prints besides `export`/`unset`: `NAME() { BODY ; }` for a new alias, `echo "COMMAND"` for every command
under `-n`, and the single command `false` when the request failed.  `ShF` puts these on top of the word-level
machine `stepChar`: a table of shell functions (name → canonical text of the parsed body; a body is parsed, never
run), the lines written by `echo`, the exit status of the last command, double-quoted text (literal; `$`, backquote
and backslash inside are outside the fragment).  Everything else is delegated to `stepChar` unchanged. -/

def sEcho : Str := [101, 99, 104, 111]                         -- echo

/-- the alphabetic reserved words of dash and bash: not function names, not first words of a command of a body -/
def reservedWords : List Str :=
  [[105,102] /- if -/, [116,104,101,110] /- then -/, [101,108,115,101] /- else -/, [101,108,105,102] /- elif -/,
   [102,105] /- fi -/, [99,97,115,101] /- case -/, [101,115,97,99] /- esac -/, [102,111,114] /- for -/,
   [119,104,105,108,101] /- while -/, [117,110,116,105,108] /- until -/, [100,111] /- do -/, [100,111,110,101] /- done -/,
   [105,110] /- in -/, [102,117,110,99,116,105,111,110] /- function -/, [115,101,108,101,99,116] /- select -/,
   [116,105,109,101] /- time -/, [99,111,112,114,111,99] /- coproc -/]

/-- a function may be defined under this name inside the fragment: an identifier that is neither a reserved word nor
one of the commands the model interprets (a function called `export` would change what the later commands do) -/
def fnNameOk (name : Str) : Bool :=
  isIdent name && !reservedWords.contains name &&
    !([sExport, sUnset, sTrue, sFalse, sEcho] : List Str).contains name

/-- reader state inside `{ … }`: the words are kept raw (quotes included), the body is not evaluated -/
structure Body where
  /-- finished commands -/
  cmds : List (List Str) := []
  args : List Str := []
  cur : Option Str := none
  inq : Bool := false
  /-- progress through `$@` (1 after `$`) or `"$@"` (2 after `"`, 3 after `"$`, 4 after `"$@`) -/
  pend : Nat := 0
  deriving DecidableEq, Repr

def Body.endWord (b : Body) : Body :=
  match b.cur with
  | none => b
  | some w => { b with args := b.args ++ [w], cur := none }

/-- end of a command of the body (after `endWord`): its first word must not be a reserved word -/
def Body.endCmd (b : Body) : Option Body :=
  match b.args with
  | [] => some b
  | w :: _ => if reservedWords.contains w then none else some { b with cmds := b.cmds ++ [b.args], args := [] }

/-- one character of a function body: `inl cmds` = the closing `}` was read at the start of a command -/
def stepBody (b : Body) (c : Nat) : Option (Sum (List (List Str)) Body) :=
  if b.inq then some (.inr { b with cur := push b.cur c, inq := c != 39 })
  else if b.pend == 1 then (if c == 64 then some (.inr { b with cur := push b.cur c, pend := 0 }) else none)
  else if b.pend == 2 then (if c == 36 then some (.inr { b with cur := push b.cur c, pend := 3 }) else none)
  else if b.pend == 3 then (if c == 64 then some (.inr { b with cur := push b.cur c, pend := 4 }) else none)
  else if b.pend == 4 then (if c == 34 then some (.inr { b with cur := push b.cur c, pend := 0 }) else none)
  else if c == 39 then some (.inr { b with cur := push b.cur c, inq := true })
  else if c == 36 then some (.inr { b with cur := push b.cur c, pend := 1 })
  else if c == 34 then some (.inr { b with cur := push b.cur c, pend := 2 })
  else if c == 32 || c == 9 then some (.inr b.endWord)
  else if c == 10 then b.endWord.endCmd.map .inr
  else if c == 59 then (if b.endWord.args.isEmpty then none else b.endWord.endCmd.map .inr)
  else if c == 125 then (if b.cur.isNone && b.args.isEmpty && !b.cmds.isEmpty then some (.inl b.cmds) else none)
  else if isSafe c then some (.inr { b with cur := push b.cur c })
  else none

/-- `a b c` -/
def joinWith (sep : Str) : List Str → Str
  | [] => []
  | [w] => w
  | w :: r => w ++ sep ++ joinWith sep r

/-- canonical text of a parsed body: words joined by one blank, commands by `; ` -/
def bodyText (cmds : List (List Str)) : Str := joinWith [59, 32] (cmds.map (joinWith [32]))

inductive Mode
  | cmd
  /-- after `NAME(` -/
  | fnParen (name : Str)
  /-- after `NAME()` -/
  | fnBrace (name : Str)
  /-- after `{` -/
  | fnOpen (name : Str)
  | body (name : Str) (b : Body)
  /-- after the closing `}` -/
  | afterFn
  deriving DecidableEq, Repr

structure ShF where
  sh : Sh
  /-- shell functions: name → canonical body text -/
  funcs : Env := []
  /-- lines written by `echo` -/
  out : List Str := []
  /-- exit status of the last command -/
  status : Nat := 0
  /-- inside double quotes -/
  dq : Bool := false
  /-- the command being read contains a quote character -/
  q : Bool := false
  mode : Mode := .cmd
  deriving DecidableEq, Repr

/-- what a finished simple command does to the function table: `unset -f NAME…` -/
def fnEffect (args : List Str) (fs : Env) : Env :=
  match args with
  | w :: f :: names => if w == sUnset && f == sDashF then names.foldl Env.unset fs else fs
  | _ => fs

/-- `echo WORDS`: the words joined by one blank; an option-like first word or a backslash (dash's echo interprets
escapes) is outside the fragment -/
def echoLine (args : List Str) : Option Str :=
  if (args.head?.bind (·.head?)) == some 45 then none
  else if args.any (·.contains 92) then none
  else some (joinWith [32] args)

/-- `unset NAME…` without `-f`: bash removes the *function* NAME when there is no variable of that name, dash never
does — such a command is outside the fragment -/
def unsetVarsOk (env fs : Env) : List Str → Bool
  | [] => true
  | n :: r => (env.has n || !fs.has n) && unsetVarsOk (env.unset n) fs r

def stepF (st : ShF) (c : Nat) : Option ShF :=
  match st.mode with
  | .cmd =>
    if st.sh.inq then (stepChar st.sh c).map fun s => { st with sh := s }
    else if st.dq then
      if c == 34 then some { st with dq := false }
      else if c == 36 || c == 96 || c == 92 then none
      else some { st with sh := { st.sh with cur := push st.sh.cur c } }
    else if c == 34 then some { st with dq := true, q := true, sh := { st.sh with cur := some (st.sh.cur.getD []) } }
    else if c == 39 then (stepChar st.sh c).map fun s => { st with sh := s, q := true }
    else if c == 40 then
      match st.sh.args, st.sh.cur with
      | [], some name =>
        if fnNameOk name && !st.q then some { st with sh := clean st.sh.env, mode := .fnParen name } else none
      | _, _ => none
    else if c == 10 || c == 59 then
      match (endWord st.sh).args with
      | [] => if c == 59 then none else some st
      | w :: rest =>
        if w == sEcho then
          (echoLine rest).map fun l => { st with sh := clean st.sh.env, out := st.out ++ [l], status := 0, q := false }
        else if w == sUnset && rest.head? != some sDashF && !unsetVarsOk st.sh.env st.funcs rest then none
        else
          (stepChar st.sh c).map fun s =>
            { st with sh := s, funcs := fnEffect (w :: rest) st.funcs, status := if w == sFalse then 1 else 0, q := false }
    else (stepChar st.sh c).map fun s => { st with sh := s }
  | .fnParen name => if c == 41 then some { st with mode := .fnBrace name } else none
  | .fnBrace name =>
    if c == 32 || c == 9 || c == 10 then some st
    else if c == 123 then some { st with mode := .fnOpen name }
    else none
  | .fnOpen name => if c == 32 || c == 9 || c == 10 then some { st with mode := .body name {} } else none
  | .body name b =>
    match stepBody b c with
    | none => none
    | some (.inr b') => some { st with mode := .body name b' }
    | some (.inl cmds) => some { st with mode := .afterFn, funcs := st.funcs.set name (bodyText cmds), status := 0 }
  | .afterFn =>
    if c == 32 || c == 9 then some st
    else if c == 10 || c == 59 then some { st with mode := .cmd }
    else none

def feedF (st : ShF) (text : Str) : Option ShF := text.foldlM stepF st

/-- end of the text: a pending command is run as if a newline followed -/
def finishF (st : ShF) : Option ShF :=
  if st.dq || st.sh.inq then none
  else match st.mode with
    | .afterFn => some { st with mode := .cmd }
    | .cmd => stepF st 10
    | _ => none

def startF (env funcs : Env) : ShF := { sh := clean env, funcs := funcs }

/-- the shell started with the exported environment `env` and the functions `funcs` has evaluated `text`:
environment, functions, lines echoed, exit status; `none` = outside the fragment -/
def shEvalF (env funcs : Env) (text : Str) : Option ShF := (feedF (startF env funcs) text).bind finishF

/-! ## csh: how a word of the emitted text is read (from the manual; no csh binary is installed)

A word is a run of ordinary characters or a single-quoted string.  Inside single quotes every character is literal,
there is no way to write a quote, and an unescaped newline ends the command (`Unmatched '`): `none`. -/

/-- the value csh takes from the word after `setenv NAME ` -/
def cshWord (w : Str) : Option Str :=
  match w with
  | [] => some []
  | 39 :: r =>
    match r.reverse with
    | 39 :: innerRev =>
      let inner := innerRev.reverse
      if inner.all (fun c => c != 39 && c != 10 && c != 33) then some inner else none
    | _ => none
  | _ => if w.all isSafe then some w else none

/-- one command of the csh dialect applied to the environment: `setenv NAME WORD` / `unsetenv NAME`; aliases leave it
alone; `none` = csh would not read the command as intended -/
def cshApply (env : Env) : Cmd → Option Env
  | .setVar k v => if isIdent k then (cshWord (emitVal v)).map fun x => env.set k x else none
  | .unsetVar k => if isIdent k then some (env.unset k) else none
  | .aliasDef _ _ => some env
  | .aliasDel _ => some env

def cshApplyAll (cmds : List Cmd) (env : Env) : Option Env := cmds.foldlM cshApply env

/-! ## the command line: `setupcmd.EupsSetup.run` / `execute` and the wrapper `bin/eups_setup`

What reaches the caller's shell is the standard output of `eups_setup` (evaluated) — the exit status of the Python
process is visible to the wrapper only.  `runCli` models the glue around `eups.setup`: which option combinations end
before anything is printed (status 2, 3), which exceptions make the wrapper print `false` (status 1, 4, 255), and
that otherwise the command list is printed joined by `";\n"`. -/

structure Cli where
  help : Bool := false
  version : Bool := false
  list : Bool := false
  unsetup : Bool := false
  /-- `-j` -/
  nodepend : Bool := false
  /-- `-S` -/
  maxDepth : Int := -1
  /-- `-m` -/
  tablefile : Option Str := none
  /-- `-r` -/
  productDir : Option Str := none
  /-- positional arguments -/
  args : List Str := []
  deriving DecidableEq, Repr

/-- the facts about the file system and the database that the glue looks at -/
structure CliWorld where
  /-- `os.path.exists(tablefile)` -/
  tablefileExists : Bool := false
  /-- `<productDir>/ups` is a directory -/
  upsIsDir : Bool := false
  /-- the products that have a table file in that directory -/
  tables : List Str := []
  /-- `Eups.findProduct(product, version)` finds something (asked only for `-r DIR PRODUCT VERSION`) -/
  found : Bool := false
  deriving DecidableEq, Repr

/-- what happens inside the `try` of `execute` (creation of `Eups`, VRO, `eups.setup`) -/
inductive Inner
  | returned (cmds : List Str)
  | eupsException
  | otherException
  deriving DecidableEq, Repr

structure CliResult where
  /-- text written to standard output (`none`: nothing, not even a newline) -/
  stdout : Option Str
  /-- exit status of the process -/
  status : Nat
  deriving DecidableEq, Repr

/-- `os.path.basename` -/
def basename (p : Str) : Str := p.foldl (fun acc c => if c == 47 then [] else acc ++ [c]) []

/-- `os.path.splitext(b)[0]` for a name without `/`: the last dot that is not among the leading dots splits -/
def stem (b : Str) : Str :=
  let lead := b.takeWhile (· == 46)
  let rest := b.dropWhile (· == 46)
  if rest.contains 46 then lead ++ ((rest.reverse.dropWhile (· != 46)).drop 1).reverse else b

/-- `utils.guessProduct(<productDir>/ups, productName)`; `none` = `RuntimeError` -/
def guessProduct (w : CliWorld) (name : Option Str) : Option Str :=
  if !w.upsIsDir || w.tables.isEmpty then name
  else match name with
    | some n => if w.tables.contains n then some n else none
    | none => match w.tables with
      | [t] => some t
      | _ => none

def sNone : Str := [110, 111, 110, 101]                       -- none

/-- the wrapper's `except Exception` branch: `print("false")`, `sys.exit(e.status)` -/
def cliFailed (status : Nat) : CliResult := { stdout := some (sFalse ++ [10]), status := status }

/-- the table file that counts: `--table` is ignored by `unsetup` -/
def Cli.tf (c : Cli) : Option Str := if c.unsetup then none else c.tablefile

/-- a product named by its table file only (`setup -m FILE`): name and directory come from the file's path -/
def Cli.fromTable (c : Cli) : Bool := c.tf.isSome && c.args.head?.isNone

/-- the product name before `guessProduct` -/
def Cli.name1 (c : Cli) : Option Str := if c.fromTable then c.tf.map (fun t => stem (basename t)) else c.args.head?

/-- `self.opts.productDir` is set (by `-r`, or from the table file's directory) -/
def Cli.hasDir (c : Cli) : Bool := c.productDir.isSome || c.fromTable

def Cli.guess (c : Cli) (w : CliWorld) : Option Str := if c.hasDir then guessProduct w c.name1 else c.name1

/-- the product name `eups.setup` is called with -/
def Cli.name2 (c : Cli) (w : CliWorld) : Option Str := if c.hasDir && (c.guess w).isSome then c.guess w else c.name1

/-- the exits of `run`/`execute` before the `try` block: `some r` = the run ends here with `r` -/
def cliEarly (c : Cli) (w : CliWorld) : Option CliResult :=
  if c.help || c.version then some { stdout := none, status := 0 }
  else if c.list then some { stdout := none, status := 2 }
  else if c.tf.isSome && !w.tablefileExists && c.tf != some sNone then some { stdout := none, status := 3 }
  else if !c.hasDir && c.name1.isNone then some { stdout := none, status := 3 }
  else if c.hasDir && (c.guess w).isNone && c.tf.isNone then some (cliFailed 4)       -- RuntimeError, `e.status = 4`
  else if (c.name2 w).isNone then some { stdout := none, status := 3 }
  else if c.nodepend && c.maxDepth > 0 then some { stdout := none, status := 3 }
  else none

/-- the `try` block -/
def cliInner (c : Cli) (w : CliWorld) : Inner → CliResult
  | .eupsException => cliFailed 1
  | .otherException => cliFailed 255                                                  -- `e.status = -1`
  | .returned cmds =>
    if c.productDir.isSome && c.tf.isNone && (c.args.drop 1).head?.isSome && !w.found then { stdout := none, status := 3 }
    else { stdout := some (join cmds ++ [10]), status := 0 }

def runCli (c : Cli) (w : CliWorld) (inner : Inner) : CliResult :=
  match cliEarly c w with
  | some r => r
  | none => cliInner c w inner

end EupsModel.ShellEmit
