import EupsModel.Model.PathAlg
/-! The table actions of C12 as `Action.execute` runs them on an `Eups` object, one level above `Model/PathAlg.lean`:

* `Table.expandEupsVariables` (python/eups/table.py): the product macros `${PRODUCTS}`, `${PRODUCT_DIR}`,
  `$?{PRODUCT_DIR}`, `${PRODUCT_DIR_EXTRA}`, `${<NAME>_DIR}`, `${PRODUCT_FLAVOR}`, `${PRODUCT_NAME}`,
  `${PRODUCT_VERSION}`, `${UPS_DIR}`, `${EUPS_PATH[n]}`, applied to every argument of every action before anything
  is executed;
* the bookkeeping of `--force` (`Eups.oldEnviron[var] = None`, `del Eups.oldAliases[key]`);
* `execute_addAlias` with `Eups.setAlias` / `Eups.unsetAlias`;
* `execute_envUnset` (deletes straight from `os.environ`).

The path algebra itself (`envPrepend`, `envSet`) is `Model/PathAlg.lean`. -/
namespace EupsModel.PathAct
open EupsModel EupsModel.PathAlg

/-! ## literal substitution -/

/-- `re.sub(re.escape(pat), repl, s)` for a non-empty literal `pat` and a replacement free of backslashes:
left to right, non-overlapping.  `skip` counts characters of a matched occurrence still to be dropped. -/
def replaceAllGo (pat repl : Str) : Nat → Str → Str
  | _, [] => []
  | skip + 1, _ :: xs => replaceAllGo pat repl skip xs
  | 0, x :: xs =>
    if pat.isPrefixOf (x :: xs) then repl ++ replaceAllGo pat repl (pat.length - 1) xs
    else x :: replaceAllGo pat repl 0 xs

def replaceAll (pat repl s : Str) : Str := replaceAllGo pat repl 0 s

/-- `re.search(re.escape(pat), s)` is not None -/
def hasSub (pat : Str) : Str → Bool
  | [] => pat.isEmpty
  | x :: xs => pat.isPrefixOf (x :: xs) || hasSub pat xs

/-- Python truthiness of an optional string: `None` and `""` are false -/
def truthy : Option Str → Option Str
  | some (c :: cs) => some (c :: cs)
  | _ => none

/-! ## the product macros -/

/-- what `expandEupsVariables` reads off the product and the table -/
structure ProdInfo where
  root : Option Str        -- `product.stackRoot()`
  dir : Option Str         -- `product.dir`
  extraDir : Str           -- `product.extraProductDir()`
  extraExists : Bool       -- `os.path.exists` of it
  name : Str               -- `product.name`
  flavor : Option Str      -- `product.flavor`
  version : Option Str     -- `product.version`
  upsDir : Str             -- `os.path.dirname(table.file)`
deriving Repr, DecidableEq

def upper (s : Str) : Str := s.map fun c => if Str.isLower c then c - 32 else c

-- the macro texts, as code points
def mPRODUCTS : Str := Str.ofString "${PRODUCTS}"
def mDIR : Str := Str.ofString "${PRODUCT_DIR}"
def mDIRopt : Str := Str.ofString "$?{PRODUCT_DIR}"
def mEXTRA : Str := Str.ofString "${PRODUCT_DIR_EXTRA}"
def mEXTRAopt : Str := Str.ofString "$?{PRODUCT_DIR_EXTRA}"
def mFLAVOR : Str := Str.ofString "${PRODUCT_FLAVOR}"
def mNAME : Str := Str.ofString "${PRODUCT_NAME}"
def mVERSION : Str := Str.ofString "${PRODUCT_VERSION}"
def mUPS : Str := Str.ofString "${UPS_DIR}"
def sNone : Str := Str.ofString "none"
/-- `"${" + utils.dirEnvNameFor(name) + "}"` -/
def mNameDir (name : Str) : Str := [36, 123] ++ upper name ++ Str.ofString "_DIR}"

/-- which of the four forms `(\$(\?)?{PRODUCT_DIR(_EXTRA)?})` matches at the head of `s`:
`(optional, extra, the matched text)` -/
def pdirAt (s : Str) : Option (Bool × Bool × Str) :=
  if mDIR.isPrefixOf s then some (false, false, mDIR)
  else if mDIRopt.isPrefixOf s then some (true, false, mDIRopt)
  else if mEXTRA.isPrefixOf s then some (false, true, mEXTRA)
  else if mEXTRAopt.isPrefixOf s then some (true, true, mEXTRAopt)
  else none

/-- `re.search` of that pattern: the leftmost match -/
def firstPdir : Str → Option (Bool × Bool × Str)
  | [] => none
  | c :: cs => match pdirAt (c :: cs) with
    | some m => some m
    | none => firstPdir cs

/-- the PRODUCT_DIR step: only the *first* reference decides which form is replaced (everywhere) -/
def expandPdir (p : ProdInfo) (value : Str) : Str :=
  match firstPdir value with
  | none => value
  | some (optional, extra, var) =>
    let newValue : Option Str :=
      if extra then (if optional && !p.extraExists then none else truthy (some p.extraDir))
      else (if optional && p.dir == some sNone then none else truthy p.dir)
    match newValue with
    | some nv => replaceAll var nv value
    | none => value

/-- `Table.expandEupsVariables` on one argument -/
def expandMacros (p : ProdInfo) (value : Str) : Str :=
  let value := match truthy p.root with
    | some r => replaceAll mPRODUCTS r value
    | none => value
  let value := expandPdir p value
  let value := match truthy p.dir with
    | some d => replaceAll (mNameDir p.name) d value
    | none => value
  let value := match truthy p.flavor with
    | some f => replaceAll mFLAVOR f value
    | none => value
  let value := replaceAll mNAME p.name value
  let value := match truthy p.version with
    | some v => replaceAll mVERSION v value
    | none => value
  replaceAll mUPS p.upsDir value

/-! ### `${EUPS_PATH[n]}` -/

def mEUPSPATH : Str := Str.ofString "${EUPS_PATH}"
def pEUPSPATH : Str := Str.ofString "${EUPS_PATH["

/-- the longest prefix of ASCII digits (`\d+`; other Unicode digits are outside the generator) -/
def spanDigits : Str → Str × Str
  | [] => ([], [])
  | c :: cs => if Str.isDigit c then
      let (a, b) := spanDigits cs
      (c :: a, b)
    else ([], c :: cs)

/-- `\${EUPS_PATH\[(\d+)\]}` at the head of `s`: (the index, what follows the reference) -/
def eupsPathAt (s : Str) : Option (Nat × Str) :=
  if pEUPSPATH.isPrefixOf s then
    match spanDigits (s.drop pEUPSPATH.length) with
    | (d :: ds, 93 :: 125 :: rest) => some (Str.toNat (d :: ds), rest)
    | _ => none
  else none

def hasEupsPathRef : Str → Bool
  | [] => false
  | c :: cs => (eupsPathAt (c :: cs)).isSome || hasEupsPathRef cs

/-- every subscripted reference is replaced by its own element of `$EUPS_PATH`; an index past the end leaves
`${EUPS_PATH}` (repair of D122: the pinned code replaced the *whole argument* by the element of the first reference) -/
def subEupsPath (elems : List Str) : Nat → Str → Str
  | 0, s => s
  | _ + 1, [] => []
  | f + 1, c :: cs => match eupsPathAt (c :: cs) with
    | some (i, rest) => elems.getD i mEUPSPATH ++ subEupsPath elems f rest
    | none => c :: subEupsPath elems f cs

/-- the pinned rule, for the record (index in range; `none`: out of range, not modelled): the element *is* the
new argument, whatever stood around the reference -/
def subEupsPathPinned (elems : List Str) (value : Str) : Option Str :=
  let rec first : Str → Option Nat
    | [] => none
    | c :: cs => match eupsPathAt (c :: cs) with
      | some (i, _) => some i
      | none => first cs
  match first value with
  | some i => elems[i]?
  | none => some value

/-- the whole of `Table.expandEupsVariables` on one argument; `eupsPath` is `os.environ.get("EUPS_PATH")` -/
def expandArg (p : ProdInfo) (eupsPath : Option Str) (arg : Str) : Str :=
  let value := expandMacros p arg
  if hasEupsPathRef value then
    match eupsPath with
    | none => arg          -- `continue`: the argument keeps its text as written (all of it)
    | some ep => subEupsPath (split [58] ep) (value.length + 1) value
  else value

/-- `Table._rewrite`: the older synonyms of the macros are rewritten, line by line, when a table file is read
(so they reach only actions that come from a file) -/
def legacySyn (s : Str) : Str :=
  let s := replaceAll (Str.ofString "${PROD_DIR}") mDIR s
  let s := replaceAll (Str.ofString "${UPS_PROD_DIR}") mDIR s
  let s := replaceAll (Str.ofString "${UPS_PROD_FLAVOR}") mFLAVOR s
  let s := replaceAll (Str.ofString "${UPS_PROD_NAME}") mNAME s
  let s := replaceAll (Str.ofString "${UPS_PROD_VERSION}") mVERSION s
  let s := replaceAll (Str.ofString "${UPS_DB}") mPRODUCTS s
  replaceAll (Str.ofString "${UPS_UPS_DIR}") mUPS s

/-! ## the `Eups` object the actions act on -/

abbrev OMap := List (Str × Option Str)

namespace OMap
def has (m : OMap) (k : Str) : Bool := m.any (fun p => p.1 == k)
def del (m : OMap) (k : Str) : OMap := m.filter (fun p => p.1 ≠ k)
/-- `m[k] = None` (dict semantics: in place when present, else added at the end) -/
def setNone : OMap → Str → OMap
  | [], k => [(k, none)]
  | (k', v) :: rest, k => if k' = k then (k, none) :: del rest k else (k', v) :: setNone rest k
def get (m : OMap) (k : Str) : Option (Option Str) :=
  match m with
  | [] => none
  | (k', v) :: rest => if k' = k then some v else get rest k
end OMap

structure St where
  env : Env               -- os.environ
  oldEnv : OMap           -- Eups.oldEnviron
  aliases : Env           -- Eups.aliases
  oldAliases : OMap       -- Eups.oldAliases
  force : Bool            -- Eups.force
deriving Repr, DecidableEq

inductive Act where
  | path (append : Bool) (var value delim : Str)    -- envPrepend / envAppend
  | set (var value : Str)                           -- envSet
  | unset (var : Str)                               -- envUnset
  | alias (key : Str) (words : List Str)            -- addAlias
deriving Repr, DecidableEq

inductive Res where
  | ok (s : St)
  | runtimeError
deriving Repr, DecidableEq

/-- `if Eups.force and var in Eups.oldEnviron: Eups.oldEnviron[var] = None` -/
def forgetEnv (s : St) (var : Str) : St :=
  if s.force && s.oldEnv.has var then { s with oldEnv := s.oldEnv.setNone var } else s

/-- `" ".join(words)` -/
def joinWords (ws : List Str) : Str := join [32] ws

/-- `Action.execute` for the four commands (the arguments already macro-expanded) -/
def exec (fwd : Bool) (a : Act) (s : St) : Res :=
  match a with
  | .path append var value delim =>
    -- the bookkeeping of --force happens only when the action gets as far as `setEnv`
    match envPrepend append fwd var value delim s.env, expandSkips append fwd var value delim s.env with
    | .runtimeError, _ => .runtimeError
    | .ok _, true => .ok s
    | .ok env', false => .ok { forgetEnv s var with env := env' }
  | .set var value =>
    let s := forgetEnv s var            -- before the value is looked at
    match envSet fwd var value s.env with
    | .ok env' => .ok { s with env := env' }
    | .runtimeError => .runtimeError
  | .unset var => match envUnset fwd var s.env with
    | .ok env' => .ok { s with env := env' }
    | .runtimeError => .runtimeError
  | .alias key words =>
    let s := if s.force && s.oldAliases.has key then { s with oldAliases := s.oldAliases.del key } else s
    if fwd then .ok { s with aliases := s.aliases.set key (joinWords words) }
    else .ok { s with aliases := s.aliases.unset key, oldAliases := s.oldAliases.setNone key }
where
  /-- does `execute_envPrepend` return early (`if value is None: return`)? -/
  expandSkips (_append _fwd : Bool) (_var value delim : Str) (env : Env) : Bool :=
    let value := if startsWith value delim then value.drop delim.length else value
    let value := if endsWith value delim then value.take (value.length - delim.length) else value
    match expand env value with
    | .skip => true
    | _ => false

/-- a rewriting of every argument of an action -/
def Act.mapArgs (f : Str → Str) : Act → Act
  | .path app var value delim => .path app (f var) (f value) (f delim)
  | .set var value => .set (f var) (f value)
  | .unset var => .unset (f var)
  | .alias key words => .alias (f key) (words.map f)

/-- macro expansion of every argument of an action (`expandEupsVariables` runs over `a.args`) -/
def Act.expandMacros (p : ProdInfo) (a : Act) : Act := a.mapArgs (PathAct.expandMacros p)

/-- … including the `${EUPS_PATH[n]}` step -/
def Act.expandAll (p : ProdInfo) (eupsPath : Option Str) (a : Act) : Act := a.mapArgs (expandArg p eupsPath)

/-- `Table._read` keeps an `envUnset` line only for the product's own `<NAME>_DIR` (`PRODUCT_DIR` is renamed to it);
any other variable's line is dropped -/
def readFilter (name : Str) (a : Act) : Option Act :=
  let pdirVar := upper name ++ Str.ofString "_DIR"
  match a with
  | .unset var =>
    if var = Str.ofString "PRODUCT_DIR" then some (.unset pdirVar)
    else if var = pdirVar then some a else none
  | a => some a

/-- the actions of a table file as `Product.getTable` hands them out: synonyms rewritten, `envUnset` lines filtered,
macros expanded -/
def fromFile (p : ProdInfo) (eupsPath : Option Str) (acts : List (Bool × Act)) : List (Bool × Act) :=
  acts.filterMap fun (fwd, a) =>
    match readFilter p.name (a.mapArgs legacySyn) with
    | some a' => some (fwd, a'.expandAll p eupsPath)
    | none => none

/-- a run: the actions with their directions, in order; stops at the first error -/
def run : List (Bool × Act) → St → Res
  | [], s => .ok s
  | (fwd, a) :: rest, s => match exec fwd a s with
    | .ok s' => run rest s'
    | .runtimeError => .runtimeError

end EupsModel.PathAct
