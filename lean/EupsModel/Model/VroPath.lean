import EupsModel.Model.Vro
/-! Which stacks a command searches, and in which order: `Eups.setEupsPath(path, dbz)` (python/eups/Eups.py l.47-71),
called by `setup` / `Eups.__init__` with `-Z path` (or `$EUPS_PATH`) and `-z dbz`.  "The first stack on the path" of the
lookup clauses is the first element of this list.

```
path = path.split(":")
if dbz: path = [p for p in path if re.search(r"/%s(/|$)" % dbz, p)]
for p in path:
    if not os.path.isdir(p): continue
    p = os.path.normpath(p)
    if eups_path.count(p) == 0: eups_path.append(p)
``` -/
namespace EupsModel.Vro

/-- `s.split(":")`: empty pieces are kept -/
def splitOn (sep : Nat) : Str → Str → List Str
  | cur, [] => [cur.reverse]
  | cur, c :: cs => if c == sep then cur.reverse :: splitOn sep [] cs else splitOn sep (c :: cur) cs

def slash : Nat := 47

/-- `str.join` -/
def joinWith (sep : Nat) : List Str → Str
  | [] => []
  | [x] => x
  | x :: y :: rest => x ++ sep :: joinWith sep (y :: rest)

/-- one step of `posixpath.normpath` over the components: `.` and empty components go away, `..` removes the
component before it (but stays when there is none to remove in a relative path, and is dropped at the root) -/
def normComps (absolute : Bool) : List Str → List Str → List Str
  | acc, [] => acc.reverse
  | acc, c :: cs =>
    if c.isEmpty || c == [46] then normComps absolute acc cs
    else if c == [46, 46] then
      match acc with
      | [] => if absolute then normComps absolute [] cs else normComps absolute [c] cs
      | a :: as => if a == [46, 46] then normComps absolute (c :: acc) cs else normComps absolute as cs
    else normComps absolute (c :: acc) cs

/-- `os.path.normpath` (POSIX): exactly two leading slashes are kept, three or more become one -/
def normpath (p : Str) : Str :=
  if p.isEmpty then [46]
  else
    let lead : Nat :=
      match p with
      | 47 :: 47 :: 47 :: _ => 1
      | 47 :: 47 :: _ => 2
      | 47 :: _ => 1
      | _ => 0
    let comps := normComps (lead != 0) [] (splitOn slash [] p)
    let body := joinWith slash comps
    let pre := List.replicate lead slash
    if pre.isEmpty && body.isEmpty then [46] else pre ++ body

/-- `re.search(r"/%s(/|$)" % re.escape(dbz), p)` (fix D93: the word is taken literally; before it was pasted into the
pattern unescaped, so `-z st.ck` also selected `.../stock`): `/dbz` occurs in `p` followed by `/` or by the end of the text -/
def dbzMatches (dbz : Str) : Str → Bool
  | [] => false
  | c :: cs =>
    (c == slash && dbz.isPrefixOf cs &&
      (match cs.drop dbz.length with
       | [] => true
       | d :: _ => d == slash)) || dbzMatches dbz cs

inductive PathErr where
  | unsupported      -- never produced since fix D93 (a `-z` word with regular-expression characters, before it)
deriving DecidableEq, Repr

/-- keep the first occurrence of each directory (`if eups_path.count(p) == 0`) -/
def uniqDirs : List Str → List Str → List Str
  | _, [] => []
  | seen, p :: ps => if seen.contains p then uniqDirs seen ps else p :: uniqDirs (p :: seen) ps

/-- `Eups.setEupsPath(path, dbz)`: `path` = the text of `-Z` / `$EUPS_PATH` (not empty), `isdir` = the directories
that exist.  The result is also what `$EUPS_PATH` is set to (joined with `:`). -/
def setEupsPath (isdir : Str → Bool) (path : Str) (dbz : Option Str) : Except PathErr (List Str) :=
  let parts := splitOn colon [] path
  match dbz with
  | some z =>
    if z.isEmpty then .ok (uniqDirs [] ((parts.filter isdir).map normpath))          -- `if dbz:` — an empty word selects nothing
    else .ok (uniqDirs [] (((parts.filter (dbzMatches z)).filter isdir).map normpath))
  | none => .ok (uniqDirs [] ((parts.filter isdir).map normpath))

end EupsModel.Vro
