import EupsModel.Model.Lock
/-! C09 — the three races as predicates on single steps of the lock model, and race-free schedules.

* **A, scan before create**: an admission test of `p` passes — the parent test of an exclusive request, or an
  "exclusive*" listing that lets `p` go on to `create` — while an unrelated requester `q` is *in flight* (admitted to
  the directory, lock file not yet created), one of the two requests exclusive.
* **B, stale rmdir**: an `rmdir` succeeds while another process is in flight.
* **C, trepidation**: `os.path.exists(lockDir)` answers False to a shared requester whose `mkdir` was refused.

`C09_classification` (Props/C09.lean): on a schedule none of whose steps is one of these, `Mutex` holds throughout —
so every reachable state violating `Mutex` has one of the three races in its history. -/
namespace EupsModel.Lock

/-- admitted to the lock directory, lock file not yet created -/
def inflight : PC → Bool
  | .scan | .scan2 | .create => true
  | _ => false

/-- the next call of `p` is an admission test, and it passes -/
def admits (s : St) (p : Pid) : Prop :=
  (∃ l, s.pc p = .scanAll l ∧ parentHolds (s.lp p) s.files = true)
  ∨ (s.pc p = .scan ∧ (exFiles s.files).length = 0)
  ∨ (s.pc p = .scan2 ∧ ∃ f, (exFiles s.files).head? = some f ∧ s.lp p = some f.2)

def RaceA (s : St) (p : Pid) : Prop :=
  admits s p ∧ ∃ q, q ≠ p ∧ ¬ related s p q ∧ inflight (s.pc q) = true ∧ (s.kind p = .ex ∨ s.kind q = .ex)

def RaceB (s : St) (p : Pid) : Prop :=
  s.pc p = .rmdir ∧ s.dir = true ∧ s.files = [] ∧ ∃ q, q ≠ p ∧ inflight (s.pc q) = true

def RaceC (s : St) (p : Pid) : Prop :=
  s.pc p = .existsChk ∧ s.dir = false

/-- the step of `p` in `s` is one of the three races -/
def Racy (s : St) (p : Pid) : Prop := RaceA s p ∨ RaceB s p ∨ RaceC s p

/-- no step of the schedule, run from `s`, is a race -/
def RaceFree : St → List Pid → Prop
  | _, [] => True
  | s, p :: r => ¬ Racy s p ∧ RaceFree (step s p) r

/-- `EUPS_LOCK_PID` names a process that itself started without the variable: `takeLocks` sets it only when it is
absent, so every descendant inherits the pid of the first locker of its family. -/
def Flat (lp : Pid → Option Pid) : Prop := ∀ p r, lp p = some r → lp r = none

end EupsModel.Lock
