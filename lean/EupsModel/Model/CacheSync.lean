/-! Model of the *staleness test between live instances* of `python/eups/stack/ProductStack.py`:
`_cacheFileIsInSync` (l.255-265), `cacheIsInSync`, `ensureInSync` (l.334-348), `reload`'s and `persist`'s bookkeeping
of `self.modtimes`, the three ways `fromCache` (l.776-834) fills a stack, the per-file test of `save` (l.223-253) with
its `CacheOutOfSync` exit, and the write-through sequence of `Eups.declare` (l.2663-2675: `Database.declare`,
`ensureInSync`, `addProduct`, `save` — on `CacheOutOfSync`: `refreshFromDatabase`).

One cache file (one stack, one flavor, the cache directory of one user — the files of different flavors are
independent), two `ProductStack` objects of that user alive in one process, and other well-behaved processes of the
same user.  The database is a list of *changes* (identifiers); a stack in memory and a cache file hold the changes
they know.  Time is a logical clock: only the order of modification times matters (`<=` in `_cacheFileIsInSync`,
`>` in `Database.isNewerThan`).

`fixed = true` is the tree with repair c9cb3dd (D60): reading the stack-wide cache notes the time of the file in
`persistDir`, a file found missing keeps the mark 0.  `fixed = false` is the rule before it (kept for the witness). -/
namespace EupsModel.CacheSync

/-- the cache file `<persistDir>/<flavor>.pickleDB1_3_0` -/
structure File where
  mtime : Nat
  content : List Nat
  deriving DecidableEq, Repr

/-- one live `ProductStack` -/
structure Inst where
  /-- `self.modtimes[file]` for the file in `persistDir`; `none`: the file is not in the dictionary -/
  mod : Option Nat
  /-- the changes `self.lookup` holds -/
  mem : List Nat
  deriving DecidableEq, Repr

structure St where
  now : Nat
  /-- the database: every change made so far -/
  db : List Nat
  /-- modification time of the product directory (what `isNewerThan` compares the cache file with) -/
  dbTime : Nat
  file : Option File
  i0 : Inst
  i1 : Inst
  deriving DecidableEq, Repr

def St.inst (s : St) (i : Bool) : Inst := if i then s.i1 else s.i0
def St.setInst (s : St) (i : Bool) (x : Inst) : St := if i then { s with i1 := x } else { s with i0 := x }

/-- `cacheIsUpToDate`: the file exists and the database is not newer than it -/
def fresh (s : St) : Bool :=
  match s.file with
  | none => false
  | some f => s.dbTime ≤ f.mtime

/-- `_cacheFileIsInSync(file)`: the answer and the dictionary entry afterwards -/
def inSync (fixed : Bool) (mod : Option Nat) (file : Option File) : Bool × Option Nat :=
  match mod with
  | none => (true, none)                                     -- `if file not in self.modtimes: return True`
  | some t =>
    match file with
    | none => (true, if fixed then some 0 else none)         -- FileNotFoundError
    | some f => (decide (f.mtime ≤ t), some t)

/-- `ensureInSync()`: `if not cacheIsInSync(): reload()` — `reload(None)` reads the cache files that exist and
notes their times -/
def ensure (fixed : Bool) (x : Inst) (file : Option File) : Inst :=
  let r := inSync fixed x.mod file
  if r.1 then { x with mod := r.2 } else
    match file with
    | some f => ⟨some f.mtime, f.content⟩
    | none => { x with mod := r.2 }

/-- `fromCache(dbpath, flavors, persistDir)` of instance `i`: the user's file when it is up to date; else the
stack-wide cache when that is (`sysOk`) — `fixed`: noting the time of the user's file, 0 when there is none —; else
`refreshFromDatabase` + `save` -/
def load (fixed : Bool) (sysOk : Bool) (s : St) (i : Bool) : St :=
  match s.file, fresh s with
  | some f, true => s.setInst i ⟨some f.mtime, f.content⟩
  | _, _ =>
    if sysOk then
      s.setInst i ⟨if fixed then some ((s.file.map (·.mtime)).getD 0) else none, s.db⟩
    else
      { (s.setInst i ⟨some s.now, s.db⟩) with file := some ⟨s.now, s.db⟩, now := s.now + 1 }

inductive Ev
  /-- instance `i`: `Database.declare`; `ensureInSync`; `addProduct`; `save` (`CacheOutOfSync`: `refreshFromDatabase`) -/
  | write (i : Bool)
  /-- instance `i`: `ensureInSync` and nothing else (`Eups.unassignTag` of a tag the stack does not hold) -/
  | check (i : Bool)
  /-- another process of the same user (a fresh process: it believes an up-to-date cache file): a change, then its cache file -/
  | other
  /-- the cache file is deleted (`eups admin clearCache` in another process) -/
  | delete
  deriving DecidableEq, Repr

/-- what a fresh process of the user holds: the user's cache file when that is up to date, the database otherwise -/
def otherMem (s : St) : List Nat :=
  match s.file with
  | some f => if s.dbTime ≤ f.mtime then f.content else s.db
  | none => s.db

def step (fixed : Bool) (s : St) : Ev → St
  | .write i =>
    let c := s.db.length                                    -- a fresh change
    let s1 : St := { s with db := s.db ++ [c], dbTime := s.now, now := s.now + 1 }
    let x := ensure fixed (s1.inst i) s1.file
    let x1 : Inst := { x with mem := x.mem ++ [c] }
    let r := inSync fixed x1.mod s1.file
    if r.1 then
      { (s1.setInst i ⟨some s1.now, x1.mem⟩) with file := some ⟨s1.now, x1.mem⟩, now := s1.now + 1 }   -- `persist`
    else
      s1.setInst i ⟨r.2, s1.db⟩                              -- `CacheOutOfSync` → `refreshFromDatabase`
  | .check i => s.setInst i (ensure fixed (s.inst i) s.file)
  | .other =>
    let c := s.db.length
    { s with db := s.db ++ [c], dbTime := s.now, file := some ⟨s.now + 1, otherMem s ++ [c]⟩, now := s.now + 2 }
  | .delete => { s with file := none }

def run (fixed : Bool) (s : St) (evs : List Ev) : St := evs.foldl (step fixed) s

/-- where a scenario starts: `n` changes made long ago; the user's cache file absent (0), stale (1: it lacks the last
change and is older than the database) or fresh (2); a stack-wide cache that is up to date or not; then both
instances are constructed, 0 first -/
def init (fixed : Bool) (n : Nat) (fileKind : Nat) (sysOk : Bool) : St :=
  let db := List.range n
  let file : Option File := match fileKind with
    | 0 => none
    | 1 => some ⟨1, List.range (n - 1)⟩
    | _ => some ⟨3, db⟩
  let s : St := ⟨4, db, 2, file, ⟨none, []⟩, ⟨none, []⟩⟩
  load fixed sysOk (load fixed sysOk s false) true

/-- `ProductStack.reload` of the user's (up-to-date) cache file by instance 1 with ANOTHER WRITER'S whole command landing
inside it (two unserialised writers; instance 0 was constructed before).  `statFirst = true` is the code
(`self.modtimes[file] = os.stat(file).st_mtime`, then `open` + `pickle.load`; the other writer may come before or
after the read — `readLate` —, the time noted is the old one either way); `statFirst = false` notes the time after
unpickling (old content with the new time). -/
def loadGate (statFirst readLate : Bool) (s : St) : St :=
  match s.file with
  | none => s
  | some f =>
    let s' := step true s .other
    let content := if readLate then (s'.file.map (·.content)).getD f.content else f.content
    let t := if statFirst then f.mtime else (s'.file.map (·.mtime)).getD f.mtime
    { s' with i1 := ⟨some t, content⟩ }

/-- the constructor of instance 0 when it REBUILDS its stack (`refreshFromDatabase`, then `save()`), with another writer's
whole command landing between the scan of the database and the `save()`.  `fixed = false` (before 03a1e94, D62): the
files `save()` replaces are not in the dictionary of a stack that was just created, `_cacheFileIsInSync` answers True,
and the scan of before the other writer's change is saved over the other writer's cache file.  `fixed = true`: the time
of the file was noted before the scan (0: there was none), `save()` finds the file newer and leaves it alone. -/
def rebuildGate (fixed : Bool) (s : St) : St :=
  let mem := s.db
  let t0 := (s.file.map (·.mtime)).getD 0
  let s1 := step true s .other
  if fixed then { s1 with i0 := ⟨some t0, mem⟩ }
  else { s1 with i0 := ⟨some s1.now, mem⟩, file := some ⟨s1.now, mem⟩, now := s1.now + 1 }

/-- `init` with the gate: instance 0 rebuilds (no usable cache anywhere) with another writer inside; instance 1 is
constructed afterwards -/
def initRebuildGate (fixed : Bool) (n : Nat) (fileKind : Nat) : St :=
  let db := List.range n
  let file : Option File := match fileKind with
    | 0 => none
    | _ => some ⟨1, List.range (n - 1)⟩
  let s : St := ⟨4, db, 2, file, ⟨none, []⟩, ⟨none, []⟩⟩
  load fixed false (rebuildGate fixed s) true

/-- what a later process relies on: a cache file that is not older than the database holds the database -/
def Safe (s : St) : Prop :=
  ∀ f, s.file = some f → s.dbTime ≤ f.mtime → f.content = s.db

end EupsModel.CacheSync
