import EupsModel.Model.FsTab
/-!
# The product cache under a kill (C08)

After every database operation `Eups.declare` / `assignTag` / `unassignTag` / `undeclare` save the product cache:
`ProductStack.save(flavors)` → `persist(flavor)` for each flavor → `utils.AtomicFile` (utils.py l.893-940):
a temporary file is created (`tempfile.NamedTemporaryFile`), the pickle is written into the **buffered** file object,
`os.fsync`, the `with` block closes the file, `os.rename` puts it in place.

Buffered-write semantics: `write` leaves the file on disk as it is (the data sits in the process; a killed process
loses it), `fsync` of the descriptor likewise (nothing was flushed), `close` flushes — only then does the file hold the
pickle.  So the order *close, then rename* is what makes the cache file complete at every crash point; with *rename,
then close* a kill in between leaves an empty cache file in place (`renameFirst`, used for the negation witness only).

The cache files live in the user's data directory: a third store beside the records and the interned table files.
The content of a cache file is abstracted to the number of the save that wrote it (0 = before the command).
-/
namespace EupsModel.FsEff

inductive CFile where
  | empty
  | full (gen : Nat)
  deriving DecidableEq, Repr

inductive CPath where
  | main (f : Id)          -- `<flavor>.pickleDB1_3_0`
  | tmp (i : Nat)          -- the i-th temporary file of the running command
  deriving DecidableEq, Repr

abbrev CacheFs := List (CPath × CFile)

def cget (t : CacheFs) (f : CPath) : Option CFile :=
  match t.find? (·.1 = f) with
  | some x => some x.2
  | none => none

def cset : CacheFs → CPath → CFile → CacheFs
  | [], f, c => [(f, c)]
  | (g, d) :: r, f, c => if g = f then (f, c) :: r else (g, d) :: cset r f c

def cdel : CacheFs → CPath → CacheFs
  | [], _ => []
  | (g, d) :: r, f => if g = f then cdel r f else (g, d) :: cdel r f

inductive CEff where
  | creat (i : Nat)                -- the temporary file exists, empty
  | write (i : Nat)                -- `pickle.dump` into the buffered file object: the file does not change
  | fsync (i : Nat)                -- `os.fsync(fd)`: the buffer is still in the process, the file does not change
  | close (i : Nat) (gen : Nat)    -- close flushes the buffer: the file now holds the complete pickle
  | rename (i : Nat) (f : Id)
  deriving DecidableEq, Repr

def applyCEff (t : CacheFs) : CEff → CacheFs
  | .creat i => cset t (.tmp i) .empty
  | .write _ => t
  | .fsync _ => t
  | .close i gen => cset t (.tmp i) (.full gen)
  | .rename i f => match cget t (.tmp i) with
    | some c => cset (cdel t (.tmp i)) (.main f) c
    | none => t

def applyCAll (t : CacheFs) (es : List CEff) : CacheFs := es.foldl applyCEff t

/-- `AtomicFile` for the cache file of flavor `f`, temporary file number `i`, save number `gen`.
`renameFirst` is the wrong order (never in the tree; the witness shows the model tells them apart). -/
def atomicFile (renameFirst : Bool) (i gen : Nat) (f : Id) : List CEff :=
  if renameFirst then [.creat i, .write i, .fsync i, .rename i f, .close i gen]
  else [.creat i, .write i, .fsync i, .close i gen, .rename i f]

/-- `ProductStack.save(flavors)`: one `AtomicFile` per flavor, in order; temporary files numbered from `i0` -/
def saveEffects (renameFirst : Bool) (i0 gen : Nat) : List Id → List CEff
  | [] => []
  | f :: fl => atomicFile renameFirst i0 gen f ++ saveEffects renameFirst (i0 + 1) gen fl

/-- records, interned table files, product cache -/
structure Db3 where
  fs : Fs
  tabs : TabFs
  cache : CacheFs
  deriving DecidableEq, Repr

inductive Eff3 where
  | onRec (e : Eff)
  | onTab (e : TEff)
  | onCache (e : CEff)
  deriving DecidableEq, Repr

def applyEff3 (db : Db3) : Eff3 → Db3
  | .onRec e => { db with fs := applyEff db.fs e }
  | .onTab e => { db with tabs := applyTEff db.tabs e }
  | .onCache e => { db with cache := applyCEff db.cache e }

def applyAll3 (db : Db3) (es : List Eff3) : Db3 := es.foldl applyEff3 db

/-- the database operations of a command, one group per `Eups`-level operation (`Eups.declare`'s call of
`Database.declare`; "delete all old occurrences of this tag"; "set it in the proper place"; `Eups.undeclare`;
`Eups.unassignTag`): the cache is saved after every group that did something -/
def groups (fs : Fs) : Cmd → List (List Step)
  | .declare p v f tag force =>
    let tag' := declareTag fs p f tag
    let dodeclare := !hasFlavorV (vread fs p v) f || force
    let e1 := if dodeclare then dbDeclare fs p v f tag' else []
    let fs1 := applySteps fs e1
    match tag' with
    | none => [e1]
    | some t =>
      let eu := match taggedVersion fs1 t p f with
        | some _ => dbUnassignTag fs1 t p f
        | none => []
      let fs2 := applySteps fs1 eu
      [e1, eu, dbAssignTag fs2 t p v f]
  | c => [steps fs c]

structure Cfg3 where
  atomic : Bool := true
  renameFirst : Bool := false

/-- effects of the groups in order; after every non-empty group the cache files of `flavors` are saved.
`flavors` = `ProductStack.getFlavors()` of the command's `Eups` object (the keys of its `lookup` dictionary, fixed when the
object was built: the flavors met while the database was read, then the command's own flavor and `generic`) — part of the
state the command starts in, like the directory-listing order. -/
def effectsG (cfg : Cfg3) (flavors : List Id) : Fs → List (List Step) → Nat → Nat → List Eff3
  | _, [], _, _ => []
  | fs, g :: gs, i0, gen =>
    (expandAll cfg.atomic fs g).map .onRec ++
    (if g.isEmpty then [] else (saveEffects cfg.renameFirst i0 gen flavors).map .onCache) ++
    effectsG cfg flavors (applySteps fs g) gs (if g.isEmpty then i0 else i0 + flavors.length) (if g.isEmpty then gen else gen + 1)

/-- all effects of a command: database operations with the cache saves in between, the interned table file last -/
def effects3 (cfg : Cfg3) (flavors : List Id) (db : Db3) (c : Cmd2) : List Eff3 :=
  effectsG cfg flavors db.fs (groups db.fs c.onRecords) 0 1 ++ (tabEffects { atomic := cfg.atomic } c).map .onTab

def crashAt3 (cfg : Cfg3) (flavors : List Id) (db : Db3) (c : Cmd2) (k : Nat) : Db3 :=
  applyAll3 db ((effects3 cfg flavors db c).take k)

/-- every cache file in place is a complete pickle -/
def cacheComplete (t : CacheFs) : Bool :=
  t.all fun (p, c) =>
    match p, c with
    | .main _, .empty => false
    | _, _ => true

end EupsModel.FsEff
