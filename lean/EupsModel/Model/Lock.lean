/-! C09 — small-step model of `eups.lock.takeLocks` / `giveLocks` on ONE lock directory.

One transition = one file-system call of one process, in the order `python/eups/lock.py` issues them
(observed on the real code through the step gate of `harness/lib_lockgate.py`):

```
takeLocks:  mkdir ─ok────────────────────────────────────────────┐
              │EEXIST                                            │
              ├ exclusive: scan "*" ─ the one locker is $EUPS_LOCK_PID ─┤
              │              └ else scan "*" (message) ─ last try: RuntimeError | retry: mkdir
              └ shared: exists(lockDir) ─True──────────────────────┤
                          └False: return []  ("proceeding with trepidation")
                                                                 ▼
            scan "exclusive*" ─ none ──────────────────────────▶ create (O_EXCL|O_CREAT) ─▶ return [(dir, file)]
              ├ exactly one: scan "exclusive*" again, first pid = $EUPS_LOCK_PID ─▶ create
              │                                   └ else RuntimeError / IndexError
              └ several: RuntimeError
body        (the command runs)
giveLocks:  isdir(lockDir) ─False▶ return ;  exists(file) [─True▶ remove(file)] ; count files (os.walk)
            ─ 0 ▶ rmdir(lockDir)
```

Any number of processes.  A process is described by its kind (shared / exclusive request), the value of
`EUPS_LOCK_PID` it starts with (`lp`, the pid of the ancestor that took the lock; re-entry), and the
number of further attempts an exclusive request makes after a refused one (`ntry - 1`).  `time.sleep`
between attempts is not a step.  The model is the tree *with* our repair of the second release pass
(`giveLocks` forgets what it released, so the `atexit` handler registered by `takeLocks` finds nothing to do).

Imports nothing; process state is function-valued (`Pid → _`), which is what the proofs want; the driver
(`Drv/C09.lean`) builds the functions from finite lists. -/
namespace EupsModel.Lock

abbrev Pid := Nat

inductive Kind | sh | ex
  deriving DecidableEq, Repr, Hashable

/-- exception classes that leave `takeLocks` / `giveLocks` -/
inductive Err
  | runtime      -- RuntimeError: lock refused
  | index        -- IndexError: the second "exclusive*" listing came back empty
  | enoent       -- FileNotFoundError from os.open / os.remove / os.rmdir
  | enotempty    -- OSError(ENOTEMPTY) from os.rmdir
  | stopIter     -- StopIteration from next(os.walk(d)) on a directory that is gone
  deriving DecidableEq, Repr, Hashable

/-- program counter = the next file-system call of the process -/
inductive PC
  | mkdir (left : Nat)     -- os.mkdir(lockDir); `left` further attempts remain after this one
  | existsChk              -- shared request, mkdir refused: os.path.exists(lockDir)
  | scanAll (left : Nat)   -- exclusive request, mkdir refused: listLockers(lockDir, getPids=True)
  | scanMsg (left : Nat)   -- not the parent's lock: listLockers(lockDir) for the message; raise or retry
  | scan                   -- listLockers(lockDir, "exclusive*")
  | scan2                  -- exactly one exclusive locker: listLockers(lockDir, "exclusive*", getPids=True)[0]
  | create                 -- os.open(lockFile, O_EXCL|O_RDWR|O_CREAT)
  | hold                   -- takeLocks returned the lock; the command body runs
  | unlocked               -- takeLocks returned [] ("proceeding with trepidation"); the body runs without a lock
  | isdir                  -- giveLocks: os.path.isdir(lockDir)
  | rexists                -- os.path.exists(lockFile)
  | remove                 -- os.remove(lockFile)
  | count                  -- len(next(os.walk(lockDir))[2])
  | rmdir                  -- os.rmdir(lockDir)
  | done                   -- giveLocks returned
  | failedAcq (e : Err)    -- takeLocks raised
  | failedRel (e : Err)    -- giveLocks raised
  deriving DecidableEq, Repr, Hashable

structure St where
  dir   : Bool                     -- the lock directory exists
  files : List (Kind × Pid)        -- lock files in it, newest first (the order listings are returned in)
  kind  : Pid → Kind
  lp    : Pid → Option Pid         -- $EUPS_LOCK_PID at start
  pc    : Pid → PC

def upd (f : Pid → PC) (i : Pid) (v : PC) : Pid → PC := fun j => if j = i then v else f j

@[simp] theorem upd_same (f : Pid → PC) (i : Pid) (v : PC) : upd f i v i = v := by simp [upd]
@[simp] theorem upd_other (f : Pid → PC) (i j : Pid) (v : PC) (h : j ≠ i) : upd f i v j = f j := by
  simp [upd, h]
@[simp] theorem upd_upd (f : Pid → PC) (i : Pid) (a b : PC) : upd (upd f i a) i b = upd f i b := by
  funext j; by_cases h : j = i <;> simp [upd, h]

/-- the "exclusive*" listing -/
def exFiles (fs : List (Kind × Pid)) : List (Kind × Pid) := fs.filter (fun f => f.1 == Kind.ex)

def setPC (s : St) (i : Pid) (v : PC) : St := { s with pc := upd s.pc i v }

/-- `len(lockPids) == 1 and lockPids[0] == os.environ.get("EUPS_LOCK_PID", "-1")` -/
def parentHolds (lp : Option Pid) (fs : List (Kind × Pid)) : Bool :=
  match lp, fs with
  | some p, [f] => f.2 == p
  | _, _ => false

/-- One file-system call of process `i`. -/
def step (s : St) (i : Pid) : St :=
  match s.pc i with
  | .mkdir left =>
    if s.dir then
      match s.kind i with
      | .ex => setPC s i (.scanAll left)
      | .sh => setPC s i .existsChk
    else { s with dir := true, pc := upd s.pc i .scan }
  | .scanAll left =>
    if parentHolds (s.lp i) s.files then setPC s i .scan else setPC s i (.scanMsg left)
  | .scanMsg left =>
    match left with
    | 0 => setPC s i (.failedAcq .runtime)
    | n + 1 => setPC s i (.mkdir n)
  | .existsChk => if s.dir then setPC s i .scan else setPC s i .unlocked
  | .scan =>
    if (exFiles s.files).length = 0 then setPC s i .create
    else if (exFiles s.files).length = 1 then setPC s i .scan2
    else setPC s i (.failedAcq .runtime)
  | .scan2 =>
    match (exFiles s.files).head? with
    | none => setPC s i (.failedAcq .index)
    | some f => if s.lp i = some f.2 then setPC s i .create else setPC s i (.failedAcq .runtime)
  | .create =>
    if s.dir then
      if s.files.contains (s.kind i, i) then setPC s i .hold            -- EEXIST is ignored
      else { s with files := (s.kind i, i) :: s.files, pc := upd s.pc i .hold }
    else setPC s i (.failedAcq .enoent)
  | .hold => setPC s i .isdir                                     -- the command body ends
  | .unlocked => setPC s i .done                                  -- body ends; giveLocks([]) does nothing
  | .isdir => if s.dir then setPC s i .rexists else setPC s i .done
  | .rexists => if s.files.contains (s.kind i, i) then setPC s i .remove else setPC s i .count
  | .remove =>
    if s.files.contains (s.kind i, i) then
      { s with files := s.files.filter (· != (s.kind i, i)), pc := upd s.pc i .count }
    else setPC s i (.failedRel .enoent)
  | .count =>
    if s.dir then
      if s.files.isEmpty then setPC s i .rmdir else setPC s i .done
    else setPC s i (.failedRel .stopIter)
  | .rmdir =>
    if s.dir then
      if s.files.isEmpty then { s with dir := false, pc := upd s.pc i .done }
      else setPC s i (.failedRel .enotempty)
    else setPC s i (.failedRel .enoent)
  | .done => s
  | .failedAcq _ => s
  | .failedRel _ => s

def run (s : St) (sched : List Pid) : St := sched.foldl step s

/-- Nothing exists yet; every process is about to call `os.mkdir`; `tries i = ntry - 1`. -/
def init (kind : Pid → Kind) (lp : Pid → Option Pid) (tries : Pid → Nat) : St :=
  { dir := false, files := [], kind := kind, lp := lp, pc := fun i => .mkdir (tries i) }

@[simp] theorem run_nil (s : St) : run s [] = s := rfl
@[simp] theorem run_cons (s : St) (i : Pid) (r : List Pid) : run s (i :: r) = run (step s i) r := rfl
theorem run_append (s : St) (a b : List Pid) : run s (a ++ b) = run (run s a) b := by
  simp [run, List.foldl_append]

/-! ### What a step looks like from outside (compared with the real calls by the correspondence) -/

inductive Call
  | mkdir | existsDir | scanAll | scanEx | create | work | isdir | existsFile | remove | count | rmdir
  | none                      -- the process has terminated: scheduling it does nothing
  deriving DecidableEq, Repr

inductive Res
  | ok | eexist | enoent | enotempty | stopIter | yes | no
  | listing (l : List (Kind × Pid))
  | num (n : Nat)
  | nothing
  deriving DecidableEq, Repr

/-- The call process `i` is about to make in `s` and how the file system answers it. -/
def obs (s : St) (i : Pid) : Call × Res :=
  let k := s.kind i
  match s.pc i with
  | .mkdir _ => (.mkdir, if s.dir then .eexist else .ok)
  | .scanAll _ => (.scanAll, .listing s.files)
  | .scanMsg _ => (.scanAll, .listing s.files)
  | .existsChk => (.existsDir, if s.dir then .yes else .no)
  | .scan => (.scanEx, .listing (exFiles s.files))
  | .scan2 => (.scanEx, .listing (exFiles s.files))
  | .create => (.create, if s.dir then (if s.files.contains (k, i) then .eexist else .ok) else .enoent)
  | .hold => (.work, .ok)
  | .unlocked => (.work, .ok)
  | .isdir => (.isdir, if s.dir then .yes else .no)
  | .rexists => (.existsFile, if s.files.contains (k, i) then .yes else .no)
  | .remove => (.remove, if s.files.contains (k, i) then .ok else .enoent)
  | .count => (.count, if s.dir then .num s.files.length else .stopIter)
  | .rmdir => (.rmdir, if s.dir then (if s.files.isEmpty then .ok else .enotempty) else .enoent)
  | .done => (.none, .nothing)
  | .failedAcq _ => (.none, .nothing)
  | .failedRel _ => (.none, .nothing)

/-! ### The property -/

/-- `i` and `j` are related: one of them started with the other's pid in `EUPS_LOCK_PID` (the child of a lock
holder and every descendant that inherits the variable).  Two children of the same holder are *not* related:
the protocol itself refuses the second of them when their requests do not overlap. -/
def related (s : St) (i j : Pid) : Prop := s.lp i = some j ∨ s.lp j = some i

instance (s : St) (i j : Pid) : Decidable (related s i j) := by unfold related; infer_instance

/-- the command body is running (between the return of `takeLocks` and the call of `giveLocks`) -/
def inBody : PC → Bool
  | .hold | .unlocked => true
  | _ => false

/-- First sentence of C09 at one instant: while an exclusive lock is held, no unrelated process is in its
command body — neither with a lock (shared or exclusive) nor without one (the "trepidation" exit). -/
def Mutex (s : St) : Prop :=
  ∀ i j, i ≠ j → ¬ related s i j → s.pc i = .hold → s.kind i = .ex → inBody (s.pc j) = false

/-- `Mutex` restricted to the pids below `n` (decidable; the driver and the witnesses use it). -/
def mutexUpTo (n : Nat) (s : St) : Bool :=
  (List.range n).all fun i => (List.range n).all fun j =>
    i == j || decide (related s i j) || !(s.pc i == .hold) || !(s.kind i == .ex) || !inBody (s.pc j)

/-- owns a share of the lock directory: past the gate, not yet out -/
def engaged : PC → Bool
  | .scan | .scan2 | .create | .hold | .isdir | .rexists | .remove | .count | .rmdir => true
  | _ => false

end EupsModel.Lock
