import EupsModel.Model.Str
/-! Model of `VersionCompare.stdCompare/_splitVersion` (python/eups/VersionCompare.py, reached through
`hooks.version_cmp`), of `Eups.version_match/version_match_prim` and of the "latest" selection in
`Eups._selectPreferredProduct` (python/eups/Eups.py).

The comparator is factored the way the code is: `stdCompare a b = cmpLexed (lex a) (lex b)`.
`lex` is the splitting (`_splitVersion`, applied again to the secondary and tertiary parts, as the
recursive calls of `stdCompare` do), `cmpLexed` the comparison.  The theorems are about `cmpLexed`.

`stdCompare` is only ever entered with `suffix=True` (`compare`, `__call__` and the recursive calls
all pass it), so the `if not suffix:` block of the code is dead and is not modelled.

Two comparators are kept:
* `cmpSort/cmpStrict/stdCompare`  — the tree with the repairs D5 (primary parts compared by the
  component loop, secondary/tertiary parts looked at when it says "equal") and D5b (the common
  non-numeric prefix of a component is a literal, not a regular expression);
* `…Pinned` — the comparator of the pinned tree with respect to D5 (string equality of the primary
  parts decides whether the secondary/tertiary parts are looked at), kept for the witnesses. -/
namespace EupsModel.VersionCmp

/-- How a call can end other than with an integer. -/
inductive Err
  | malformed    -- AttributeError in `_splitVersion`: the name starts with `-` or `+`
  | unsortable   -- ValueError("Versions %s and %s cannot be sorted") (strict mode only)
  | indexError   -- IndexError in `version_match`: a relational operator is the last token
  | outOfFuel    -- the model's own recursion bound was hit (never, see `Lemmas/VersionCmp.lean`)
  deriving DecidableEq, Repr

deriving instance DecidableEq for Except

def Err.name : Err → String
  | .malformed => "Malformed" | .unsortable => "Unsortable" | .indexError => "IndexError" | .outOfFuel => "OutOfFuel"

/-! ## characters -/
def cMinus : Nat := 45
def cPlus : Nat := 43
def cDot : Nat := 46
def cUnder : Nat := 95
def cM : Nat := 109
def cP : Nat := 112

/-- `[^-+]` -/
def notPM (c : Nat) : Bool := c != 45 && c != 43
/-- `[._]` -/
def isSep (c : Nat) : Bool := c == 46 || c == 95
/-- `\d` on ASCII input -/
def isDig (c : Nat) : Bool := Str.isDigit c
/-- a non-empty run of digits: `^\d+$` -/
def allDigits (s : Str) : Bool := !s.isEmpty && s.all isDig

/-! ## `_splitVersion` -/

/-- `re.split(r"[._]", s)` -/
def splitSep : Str → List Str
  | [] => [[]]
  | c :: cs =>
    if isSep c then [] :: splitSep cs
    else match splitSep cs with
      | [] => [[c]]
      | h :: t => (c :: h) :: t

/-- number of hyphens; `len(version.split("-")) > 2` iff this is at least 2 -/
def hyphens (s : Str) : Nat := (s.filter (· == 45)).length

/-- One optional group `((lead)([^-+]+))?` of the version pattern tried at `s`:
the captured run and the rest of the string. -/
def optRun (lead : Nat) (s : Str) : Option Str × Str :=
  match s with
  | [] => (none, s)
  | c :: rest =>
    if c == lead then
      let r := rest.takeWhile notPM
      if r.isEmpty then (none, s) else (some r, rest.dropWhile notPM)
    else (none, s)

/-- `re.search(r"(m(\d+)|p(\d+))$", version)`: the digits that end the name when they are preceded
by `m` or `p`; returns (name without the suffix, the letter was `m`, digits). -/
def mpSuffix (v : Str) : Option (Str × Bool × Str) :=
  let rv := v.reverse
  let d := (rv.takeWhile isDig).reverse
  if d.isEmpty then none else
  match rv.dropWhile isDig with
  | [] => none
  | c :: before =>
    if c == 109 then some (before.reverse, true, d)
    else if c == 112 then some (before.reverse, false, d)
    else none

/-- `_splitVersion` on a non-empty name: (primary, secondary, tertiary); `none` is Python's `None`/`""`. -/
def splitVersion (v : Str) : Except Err (Str × Option Str × Option Str) :=
  if hyphens v ≥ 2 then .ok (v, none, none)            -- "rel-0-8-2"
  else match v with
  | [] => .ok ([], none, none)
  | c :: _ =>
    if !notPM c then .error .malformed                   -- `mat` is None: AttributeError
    else
      let vvv := v.takeWhile notPM
      let (eee, rest) := optRun 45 (v.dropWhile notPM)
      let (fff, _) := optRun 43 rest
      if eee.isNone && fff.isNone then
        match mpSuffix v with                            -- "maybe they used VVVm# or VVVp#?"
        | some (vvv', true, d) => .ok (vvv', some d, none)
        | some (vvv', false, d) => .ok (vvv', none, some d)
        | none => .ok (vvv, none, none)
      else .ok (vvv, eee, fff)

/-! ## lexed names -/

/-- A name after splitting.  `absent` is a missing part (`None` or `""`), for which `_splitVersion`
answers `("", "", "")`; `node prim sec ter` keeps the primary part as a string (the pinned comparator
tests it for string equality), its components are `splitSep prim`. -/
inductive Lexed
  | absent
  | node (prim : Str) (sec ter : Lexed)
  deriving DecidableEq, Repr

namespace Lexed
def prim : Lexed → Str
  | absent => []
  | node p _ _ => p
def sec : Lexed → Lexed
  | absent => absent
  | node _ s _ => s
def ter : Lexed → Lexed
  | absent => absent
  | node _ _ t => t
/-- truthiness of the part in Python (`if sec1:`) -/
def present : Lexed → Bool
  | absent => false
  | node _ _ _ => true
/-- `re.split(r"[._]", prim)` -/
def comps (l : Lexed) : List Str := splitSep l.prim
end Lexed

/-- `lex` with a recursion bound: the secondary and tertiary parts are split again when they are
compared (recursive `stdCompare`); they are strictly shorter than the name. -/
def lexF : Nat → Str → Except Err Lexed
  | _, [] => .ok .absent
  | 0, _ :: _ => .error .outOfFuel
  | fuel + 1, c :: cs =>
    match splitVersion (c :: cs) with
    | .error e => .error e
    | .ok (p, e, f) =>
      match lexF fuel (e.getD []) with
      | .error er => .error er
      | .ok se =>
        match lexF fuel (f.getD []) with
        | .error er => .error er
        | .ok te => .ok (.node p se te)

def lex (s : Str) : Except Err Lexed := lexF (s.length + 1) s

/-! ## components -/

def cmpNat (a b : Nat) : Int := if a < b then -1 else if b < a then 1 else 0
def cmpInt (a b : Int) : Int := if a < b then -1 else if b < a then 1 else 0

/-- Python `int(s)` for `s` over `[A-Za-z0-9+-]`: an optional sign and a non-empty run of digits. -/
def parseInt (s : Str) : Option Int :=
  match s with
  | [] => none
  | c :: ds =>
    if c == 43 then (if allDigits ds then some (Int.ofNat (Str.toNat ds)) else none)
    else if c == 45 then (if allDigits ds then some (- Int.ofNat (Str.toNat ds)) else none)
    else if allDigits s then some (Int.ofNat (Str.toNat s)) else none

/-- `re.search(r"^([^\d]+)\d+$", c)`: non-empty non-numeric prefix and the digits after it. -/
def pdSplit (x : Str) : Option (Str × Str) :=
  let p := x.takeWhile (fun c => !isDig c)
  let d := x.dropWhile (fun c => !isDig c)
  if !p.isEmpty && allDigits d then some (p, d) else none

/-- `re.search(r"^%s\d+$" % re.escape(prefix), y)` -/
def matchesPD (p y : Str) : Bool := p.isPrefixOf y && allDigits (y.drop p.length)

/-- the `try:` block of the component loop: the pair of integers, if there is one -/
def compInts (x y : Str) : Option (Int × Int) :=
  match (match pdSplit x with
         | some (p, d) => if matchesPD p y then some (Int.ofNat (Str.toNat d), Int.ofNat (Str.toNat (y.drop p.length))) else none
         | none => none) with
  | some r => some r
  | none =>
    match parseInt x, parseInt y with
    | some a, some b => some (a, b)
    | _, _ => none

/-- `different = cmp(c1[i], c2[i])` and `c12AreIntegral` -/
def cmpComp (x y : Str) : Int × Bool :=
  match compInts x y with
  | some (a, b) => (cmpInt a b, true)
  | none => (Str.cmp x y, false)

/-- sort mode -/
def cmpC (x y : Str) : Int := (cmpComp x y).1

/-- The component loop followed by `cmp(n1, n2)`, `mustReturnInt=True`. -/
def cmpComps : List Str → List Str → Int
  | [], [] => 0
  | [], _ :: _ => -1
  | _ :: _, [] => 1
  | x :: xs, y :: ys => if cmpC x y ≠ 0 then cmpC x y else cmpComps xs ys

/-- The component loop followed by `cmp(n1, n2)`, `mustReturnInt=False`: a difference between
non-integral components is an error unless it is in the last compared position (`i == n - 1`)
and one component is a string prefix of the other. -/
def cmpCompsStrict : List Str → List Str → Except Err Int
  | [], [] => .ok 0
  | [], _ :: _ => .ok (-1)
  | _ :: _, [] => .ok 1
  | x :: xs, y :: ys =>
    if (cmpComp x y).1 ≠ 0 then
      if (cmpComp x y).2 then .ok (cmpComp x y).1
      else if xs.isEmpty || ys.isEmpty then
        if x.isPrefixOf y then .ok (-1)
        else if y.isPrefixOf x then .ok 1
        else .error .unsortable
      else .error .unsortable
    else cmpCompsStrict xs ys

/-! ## the comparator (with D5 repaired) -/

/-- `stdCompare(None, b, True)`: the absent part behaves as the name with primary `""` and no
secondary/tertiary part (`cmpSort_absent` in the lemmas shows this is the general equation). -/
def cmpAbsent : Lexed → Int
  | .absent => 0
  | .node p s t =>
    if cmpComps [[]] (splitSep p) ≠ 0 then cmpComps [[]] (splitSep p)
    else if s.present then 1
    else cmpAbsent t

/-- `stdCompare(a, b, True, mustReturnInt=True)` on lexed names. -/
def cmpSort : Lexed → Lexed → Int
  | .absent, b => cmpAbsent b
  | .node p1 s1 t1, b =>
    if cmpComps (splitSep p1) b.comps ≠ 0 then cmpComps (splitSep p1) b.comps
    else if s1.present || b.sec.present then
      if s1.present && b.sec.present then
        (if cmpSort s1 b.sec ≠ 0 then cmpSort s1 b.sec else cmpSort t1 b.ter)
      else if s1.present then -1 else 1
    else cmpSort t1 b.ter

/-- The block that looks at the secondary and tertiary parts (always in sort mode: the recursive
calls are `self.stdCompare(sec1, sec2, True)`, whose third positional parameter is `suffix`). -/
def secTer (a b : Lexed) : Int :=
  if a.sec.present || b.sec.present then
    if a.sec.present && b.sec.present then
      (if cmpSort a.sec b.sec ≠ 0 then cmpSort a.sec b.sec else cmpSort a.ter b.ter)
    else if a.sec.present then -1 else 1
  else cmpSort a.ter b.ter

/-- `stdCompare(a, b, True, mustReturnInt=False)` on lexed names. -/
def cmpStrict (a b : Lexed) : Except Err Int :=
  match cmpCompsStrict a.comps b.comps with
  | .error e => .error e
  | .ok c => if c ≠ 0 then .ok c else .ok (secTer a b)

/-- `strict = not mustReturnInt` -/
def cmpLexed (strict : Bool) (a b : Lexed) : Except Err Int :=
  if strict then cmpStrict a b else .ok (cmpSort a b)

/-- `hooks.version_cmp(a, b, mustReturnInt = !strict)` -/
def stdCompare (strict : Bool) (a b : Str) : Except Err Int :=
  match lex a with
  | .error e => .error e
  | .ok la =>
    match lex b with
    | .error e => .error e
    | .ok lb => cmpLexed strict la lb

/-! ## the pinned comparator (D5 not repaired) -/

def cmpAbsentPinned : Lexed → Int
  | .absent => 0
  | .node p s t =>
    if p == [] then (if s.present then 1 else cmpAbsentPinned t)
    else cmpComps [[]] (splitSep p)

def cmpSortPinned : Lexed → Lexed → Int
  | .absent, b => cmpAbsentPinned b
  | .node p1 s1 t1, b =>
    if p1 == b.prim then
      if s1.present || b.sec.present then
        if s1.present && b.sec.present then
          (if cmpSortPinned s1 b.sec ≠ 0 then cmpSortPinned s1 b.sec else cmpSortPinned t1 b.ter)
        else if s1.present then -1 else 1
      else cmpSortPinned t1 b.ter
    else cmpComps (splitSep p1) b.comps

def secTerPinned (a b : Lexed) : Int :=
  if a.sec.present || b.sec.present then
    if a.sec.present && b.sec.present then
      (if cmpSortPinned a.sec b.sec ≠ 0 then cmpSortPinned a.sec b.sec else cmpSortPinned a.ter b.ter)
    else if a.sec.present then -1 else 1
  else cmpSortPinned a.ter b.ter

def cmpLexedPinned (strict : Bool) (a b : Lexed) : Except Err Int :=
  if a.prim == b.prim then .ok (secTerPinned a b)
  else if strict then cmpCompsStrict a.comps b.comps else .ok (cmpComps a.comps b.comps)

def stdComparePinned (strict : Bool) (a b : Str) : Except Err Int :=
  match lex a with
  | .error e => .error e
  | .ok la =>
    match lex b with
    | .error e => .error e
    | .ok lb => cmpLexedPinned strict la lb

/-! ## conventional names -/

/-- a conventional component: letters followed by digits (either may be empty) -/
def convComp (x : Str) : Bool := (x.dropWhile Str.isAlpha).all isDig

/-- every component of every part is conventional -/
def convLexed : Lexed → Bool
  | .absent => true
  | .node p s t => (splitSep p).all convComp && convLexed s && convLexed t

/-- a part of the form `letters* digits+ (sep digits+)*`-like list: non-empty conventional components, no sub-parts -/
def simplePart : Lexed → Bool
  | .absent => true
  | .node p s t => (splitSep p).all (fun c => convComp c && !c.isEmpty) && !s.present && !t.present

/-- The grammar of the property: `[letters] digits (sep digits)*`, optional `-pre`, optional `+post`
whose components are `letters* digits*`, non-empty. -/
def conventional : Lexed → Bool
  | .absent => false
  | .node p s t =>
    (match splitSep p with
     | [] => false
     | c :: cs => convComp c && !(c.dropWhile Str.isAlpha).isEmpty && cs.all allDigits)
    && simplePart s && simplePart t

def convName (s : Str) : Bool :=
  match lex s with
  | .ok l => convLexed l
  | .error _ => false

def conventionalName (s : Str) : Bool :=
  match lex s with
  | .ok l => conventional l
  | .error _ => false

/-! ## `Eups.version_match` -/

/-- the operator of `_relop_re` (`<=?|>=?|==`) or `||` that starts at the head of `s`: its length -/
def opLen (s : Str) : Nat :=
  match s with
  | 60 :: 61 :: _ => 2     -- <=
  | 60 :: _ => 1           -- <
  | 62 :: 61 :: _ => 2     -- >=
  | 62 :: _ => 1           -- >
  | 61 :: 61 :: _ => 2     -- ==
  | 124 :: 124 :: _ => 2   -- ||
  | _ => 0

/-- `re.split(r"\s*(<=?|>=?|==|\|\||\s)\s*", expr)` with the whitespace-only pieces dropped:
`cur` is the current piece (reversed), `skip` counts operator characters still to be passed over. -/
def tokGo : Nat → Str → Str → List Str
  | _, cur, [] => if cur.isEmpty then [] else [cur.reverse]
  | skip + 1, cur, _ :: xs => tokGo skip cur xs
  | 0, cur, x :: xs =>
    if Str.isSpace x then
      (if cur.isEmpty then tokGo 0 [] xs else cur.reverse :: tokGo 0 [] xs)
    else if opLen (x :: xs) ≠ 0 then
      (if cur.isEmpty then [] else [cur.reverse]) ++
        ((x :: xs).take (opLen (x :: xs)) :: tokGo (opLen (x :: xs) - 1) [] xs)
    else tokGo 0 (x :: cur) xs

def tokenize (expr : Str) : List Str := tokGo 0 [] expr

/-- `_relop_re.search(tok)`: the token contains `<`, `>` or `==` -/
def hasRelop : Str → Bool
  | [] => false
  | c :: cs => c == 60 || c == 62 || (c == 61 && cs.head? == some 61) || hasRelop cs

/-- `re.search(r"^[-+.:/\w]+$", tok)` on ASCII input -/
def plainTok (t : Str) : Bool :=
  !t.isEmpty && t.all fun c => c == 45 || c == 43 || c == 46 || c == 58 || c == 47 || Str.isAlnum c || c == 95

def sAnd : Str := [97, 110, 100]
def sOr : Str := [111, 114]
def sBarBar : Str := [124, 124]
def sAmpAmp : Str := [38, 38]
def opLt : Str := [60]
def opLe : Str := [60, 61]
def opEq : Str := [61, 61]
def opGe : Str := [62, 61]
def opGt : Str := [62]

/-- the comparison at the end of `version_match_prim`; `none` is the fall-through `print` -/
def relHolds (op : Str) (c : Int) : Option Bool :=
  if op == opLt then some (decide (c < 0))
  else if op == opLe then some (decide (c ≤ 0))
  else if op == opEq then some (decide (c = 0))
  else if op == opGt then some (decide (c > 0))
  else if op == opGe then some (decide (c ≥ 0))
  else none

/-- `version_match_prim(op, v1, v2)` -/
def matchPrim (cmp : Str → Str → Except Err Int) (op v1 v2 : Str) : Except Err (Option Bool) :=
  match cmp v1 v2 with
  | .error e => .error e
  | .ok c => .ok (relHolds op c)

inductive LogOp | and | or
  deriving DecidableEq, Repr

/-- The `while` loop of `version_match`.  `logop` is never reset once set; `value` is `None`,
`True` or `False` (`none` also stands for the `None` an unknown operator would give).
Result: `true` = the name is returned, `false` = `None`/`False` is returned. -/
def matchLoop (cmp : Str → Str → Except Err Int) (vname : Str) :
    List Str → Option LogOp → Option Bool → Except Err Bool
  | [], _, value => .ok (value == some true)
  | t :: rest, logop, value =>
    -- one term `relop v` evaluated, then the loop continues on `rest'`
    let term (relop v : Str) (k : Option LogOp → Option Bool → Except Err Bool) : Except Err Bool :=
      if logop.isNone && value.isSome then k logop value       -- "Expected logical operator": term skipped
      else match matchPrim cmp relop vname v with
        | .error .unsortable => .ok false                       -- except ValueError: return None
        | .error e => .error e
        | .ok rhs =>
          match logop with
          | none => k logop rhs
          | some .and => k logop (some (value == some true && rhs == some true))
          | some .or => if value == some true || rhs == some true then .ok true else k logop (some false)
    if hasRelop t then
      match rest with
      | [] => .error .indexError
      | v :: rest' => term t v (matchLoop cmp vname rest')
    else if plainTok t && t != sAnd && t != sOr then term opEq t (matchLoop cmp vname rest)
    else if t == sBarBar || t == sOr then matchLoop cmp vname rest (some .or) value
    else if t == sAmpAmp || t == sAnd then
      (if value == some true then matchLoop cmp vname rest (some .and) value else .ok false)
    else .ok (value == some true)                               -- "Unexpected operator": break

/-- `Eups.version_match(vname, expr)` is truthy -/
def versionMatch (vname expr : Str) : Except Err Bool :=
  matchLoop (stdCompare true) vname (tokenize expr) none none

/-! ## `Eups.isLegalRelativeVersion` -/

/-- `_bad_relop_re.match(s)`, `^\s*=\s+\S+`: blanks, a single `=`, at least one blank, something that is not a blank. -/
def badRelop (s : Str) : Bool :=
  match s.dropWhile Str.isSpace with
  | 61 :: rest => !(rest.takeWhile Str.isSpace).isEmpty && !(rest.dropWhile Str.isSpace).isEmpty
  | _ => false

/-- how `isLegalRelativeVersion(versionName)` ends: `True`, `False`, or
`EupsException("Bad expr syntax: …; did you mean '=='?")` -/
inductive Legal | relational | plain | badSyntax
  deriving DecidableEq, Repr

/-- `Eups.isLegalRelativeVersion` on a string (`None` gives `False`, as the empty string does):
an expression is one that contains a relational operator *anywhere* (`_relop_re.search`). -/
def isLegalRelativeVersion (s : Str) : Legal :=
  if hasRelop s then .relational else if badRelop s then .badSyntax else .plain

/-! ## latest -/

/-- the names with their split forms (the sort compares every name: a malformed one raises) -/
def lexPairs : List Str → Except Err (List (Str × Lexed))
  | [] => .ok []
  | s :: ss =>
    match lex s with
    | .error e => .error e
    | .ok l => match lexPairs ss with
      | .error e => .error e
      | .ok ls => .ok ((s, l) :: ls)

/-- `vers[-1]` after `vers.sort(key=cmp_to_key(version_cmp))`, when the comparator is a total preorder
on the list: the last maximal element (the sort is stable), found by one pass that replaces the
candidate whenever the next element is not smaller. -/
def lastMax : Option (Str × Lexed) → List (Str × Lexed) → Option (Str × Lexed)
  | best, [] => best
  | none, x :: xs => lastMax (some x) xs
  | some b, x :: xs => if cmpSort x.2 b.2 ≥ 0 then lastMax (some x) xs else lastMax (some b) xs

/-- `_selectPreferredProduct(products, ["latest"])`: `vers[-1]` after the sort, then the first
product whose version *string* equals it.  Returns that product's index. -/
def latest (names : List Str) : Except Err (Option Nat) :=
  match lexPairs names with
  | .error e => .error e
  | .ok ps =>
    match lastMax none ps with
    | none => .ok none
    | some (v, _) => .ok (some (names.findIdx (· == v)))

/-! ## through the stacks -/

/-- `Database.findProducts` returns the products of one stack sorted by their version *strings*
(`_cmp_by_verflav`, one flavor): insertion sort by Python's string order. -/
def insertStr (x : Str) : List Str → List Str
  | [] => [x]
  | y :: ys => if Str.cmp x y < 0 then x :: y :: ys else y :: insertStr x ys

def dbOrder : List Str → List Str
  | [] => []
  | x :: xs => insertStr x (dbOrder xs)

/-- `if minver and self.version_cmp(latest.version, minver) < 0: continue` -/
def belowMin (minver : Option Str) (l : Lexed) : Except Err Bool :=
  match minver with
  | none => .ok false
  | some mv =>
    match lex mv with
    | .error e => .error e
    | .ok lm => .ok (decide (cmpSort l lm < 0))

/-- `Eups._findLatestProduct(name, eupsPathDirs, flavor, minver)`: in every stack the last of the
versions sorted by the comparator (cache branch: `vers.sort(...)`, `vers[-1]`; database branch:
`_selectPreferredProduct(findProducts(...), [Tag("latest")])`); a stack whose latest is below `minver`
is passed over; a later stack replaces the candidate only when its latest is strictly later.
Stacks are the lists of declared versions in the order the branch enumerates them, in path order: the
cache branch in the order of declaration (`ProductFamily.getVersions` = the keys of a dict, whose insertion
order the pickled cache keeps), the database branch in string order (`dbOrder`).  The order only matters
when two versions of one stack compare equal (`1.0`/`1_0`): the sort is stable, `vers[-1]` is the last of
them.  Returns (stack index, version). -/
def latestAcrossGo (minver : Option Str) (i : Nat) (out : Option (Nat × Str × Lexed)) :
    List (List Str) → Except Err (Option (Nat × Str × Lexed))
  | [] => .ok out
  | st :: rest =>
    match lexPairs st with
    | .error e => .error e
    | .ok ps =>
      match lastMax none ps with
      | none => latestAcrossGo minver (i + 1) out rest
      | some (v, l) =>
        match belowMin minver l with
        | .error e => .error e
        | .ok true => latestAcrossGo minver (i + 1) out rest
        | .ok false =>
          match out with
          | none => latestAcrossGo minver (i + 1) (some (i, v, l)) rest
          | some (_, _, lw) =>
            if cmpSort l lw > 0 then latestAcrossGo minver (i + 1) (some (i, v, l)) rest
            else latestAcrossGo minver (i + 1) out rest

def latestAcrossMin (minver : Option Str) (stacks : List (List Str)) : Except Err (Option (Nat × Str)) :=
  match latestAcrossGo minver 0 none stacks with
  | .error e => .error e
  | .ok none => .ok none
  | .ok (some (i, v, _)) => .ok (some (i, v))

/-- `findTaggedProduct(name, "latest")`: no minimum version -/
def latestAcross (stacks : List (List Str)) : Except Err (Option (Nat × Str)) := latestAcrossMin none stacks

/-- the versions of one stack that match, not seen in an earlier stack -/
def matchesIn (expr : Str) (i : Nat) : List Str → List (Nat × Str) → Except Err (List (Nat × Str))
  | [], acc => .ok acc
  | v :: vs, acc =>
    match versionMatch v expr with
    | .error e => .error e
    | .ok false => matchesIn expr i vs acc
    | .ok true =>
      if acc.any (fun p => p.2 == v) then matchesIn expr i vs acc
      else matchesIn expr i vs (acc ++ [(i, v)])

/-- `Eups._findProductsByExpr(name, expr, eupsPathDirs, flavor, noCache)`: (stack index, version) of
every version that matches, a version string counted once (first stack). -/
def matchesAcrossGo (expr : Str) (i : Nat) : List (List Str) → List (Nat × Str) → Except Err (List (Nat × Str))
  | [], acc => .ok acc
  | st :: rest, acc =>
    match matchesIn expr i st acc with
    | .error e => .error e
    | .ok acc' => matchesAcrossGo expr (i + 1) rest acc'

def matchesAcross (expr : Str) (stacks : List (List Str)) : Except Err (List (Nat × Str)) :=
  matchesAcrossGo expr 0 stacks []

/-- `Eups._findPreferredProductByExpr` with no other tag assigned (= `findProduct(name, expr)`):
`_selectPreferredProduct` on the matching products in the order they were collected, tag `latest`. -/
def preferredByExpr (expr : Str) (stacks : List (List Str)) : Except Err (Option (Nat × Str)) :=
  match matchesAcross expr stacks with
  | .error e => .error e
  | .ok ms =>
    match latest (ms.map (·.2)) with
    | .error e => .error e
    | .ok none => .ok none
    | .ok (some i) => .ok ms[i]?

/-! ## listing: `Eups.findProducts(name, version, tags)` — `eups list prod "expr" -t tag`

One product name, one flavor, no set-up products; `version` is a relational expression, a shell pattern
(literal characters, `*`, `?`) or absent (`[]`); `tags` are names of global tags and/or the pseudo-tag
`latest`.  A stack is the list of its declared versions in the order of declaration (the order in which
the cache enumerates them), each with the tags assigned to it in that stack. -/

/-- a declared version and the tags it carries in its stack -/
structure Decl where
  ver : Str
  tags : List Str
  deriving DecidableEq, Repr

/-- `fnmatch.fnmatch(s, pat)` for patterns of literal characters, `*` and `?` -/
def globMatch : Str → Str → Bool
  | [], s => s.isEmpty
  | 42 :: ps, s => (List.range (s.length + 1)).any fun k => globMatch ps (s.drop k)
  | 63 :: ps, s =>
    match s with
    | [] => false
    | _ :: t => globMatch ps t
  | c :: ps, s =>
    match s with
    | [] => false
    | d :: t => c == d && globMatch ps t

def sLatest : Str := [108, 97, 116, 101, 115, 116]

/-- how a listing ends: the `EupsException` of `isLegalRelativeVersion` ("did you mean '=='?"), or products
as (stack index, version) in the order they are returned -/
inductive ListOut
  | badSyntax
  | products (l : List (Nat × Str))
  deriving DecidableEq, Repr

/-- does the declared version pass the `version` argument (`verArg ≠ []`)?  `none`: the argument is refused -/
def verOk (verArg v : Str) : Except Err (Option Bool) :=
  match isLegalRelativeVersion verArg with
  | .relational =>
    match versionMatch v verArg with
    | .error e => .error e
    | .ok b => .ok (some b)
  | .plain => .ok (some (globMatch verArg v))
  | .badSyntax => .ok none

/-- `[v for v in vers if …]` -/
def filterVers (verArg : Str) : List Str → Except Err (Option (List Str))
  | [] => .ok (some [])
  | v :: vs =>
    match verOk verArg v with
    | .error e => .error e
    | .ok none => .ok none
    | .ok (some b) =>
      match filterVers verArg vs with
      | .error e => .error e
      | .ok none => .ok none
      | .ok (some l) => .ok (some (if b then v :: l else l))

/-- `vers.sort(key=cmp_to_key(version_cmp))` as a stable insertion sort (on a total preorder every stable
sort gives this list; `C10_latest_is_last_of_sort` is the corresponding statement for its last element) -/
def insertVer (x : Str × Lexed) : List (Str × Lexed) → List (Str × Lexed)
  | [] => [x]
  | y :: ys => if cmpSort x.2 y.2 ≤ 0 then x :: y :: ys else y :: insertVer x ys

def sortVers : List (Str × Lexed) → List (Str × Lexed)
  | [] => []
  | x :: xs => insertVer x (sortVers xs)

/-- `findTaggedProduct(pname, t)` for a global tag, over the whole path: the first stack with a version so tagged -/
def taggedAcross (t : Str) (i : Nat) : List (List Decl) → Option (Nat × Str)
  | [] => none
  | st :: rest =>
    match st.find? (fun d => d.tags.contains t) with
    | some d => some (i, d.ver)
    | none => taggedAcross t (i + 1) rest

/-- `utils.uniq(out)`: products are equal when name, version and flavor are — the stack is not looked at -/
def uniqVers : List (Nat × Str) → List Str → List (Nat × Str)
  | [], _ => []
  | p :: ps, seen => if seen.contains p.2 then uniqVers ps seen else p :: uniqVers ps (p.2 :: seen)

/-- the body of the loop over the stacks for one stack `st` with index `i` -/
def listStack (verArg : Str) (tags : List Str) (all : List (List Decl)) (i : Nat) (st : List Decl)
    (out : List (Nat × Str)) : Except Err (Option (List (Nat × Str))) :=
  -- `for t in tags:` a tagged product of the whole path is appended as it is; `latest` is this stack's latest
  let out1 := out ++ (tags.filter (· != sLatest)).filterMap (fun t => taggedAcross t 0 all)
  match lexPairs (st.map (·.ver)) with
  | .error e => .error e
  | .ok allPs =>
    let latest : Option Str := if tags.contains sLatest then (lastMax none allPs).map (·.1) else none
    match (if verArg.isEmpty then .ok (some (st.map (·.ver))) else filterVers verArg (st.map (·.ver))) with
    | .error e => .error e
    | .ok none => .ok none
    | .ok (some vers) =>
      match lexPairs vers with
      | .error e => .error e
      | .ok ps =>
        let sorted := (sortVers ps).map (·.1)
        -- "only include latest if it passes the version constraint"
        let latest' := match latest with
          | some l => if sorted.contains l then some l else none
          | none => none
        let body := sorted.filter fun v =>
          if tags.isEmpty then true
          else if latest' == some v then false       -- added at the end, not to list it twice
          else (st.find? (fun d => d.ver == v)).any fun d => d.tags.any tags.contains
        .ok (some (out1 ++ body.map (fun v => (i, v)) ++ (match latest' with | some l => [(i, l)] | none => [])))

def listStacks (verArg : Str) (tags : List Str) (all : List (List Decl)) :
    Nat → List (List Decl) → List (Nat × Str) → Except Err (Option (List (Nat × Str)))
  | _, [], out => .ok (some out)
  | i, st :: rest, out =>
    if st.isEmpty then listStacks verArg tags all (i + 1) rest out     -- the product is not in this stack
    else match listStack verArg tags all i st out with
      | .error e => .error e
      | .ok none => .ok none
      | .ok (some out') => listStacks verArg tags all (i + 1) rest out'

/-- the filter at the end: `out = [p for p in out if self.version_match(p.version, version)]` (or `fnmatch`) -/
def finalFilter (verArg : Str) : List (Nat × Str) → Except Err (Option (List (Nat × Str)))
  | [] => .ok (some [])
  | p :: ps =>
    match verOk verArg p.2 with
    | .error e => .error e
    | .ok none => .ok none
    | .ok (some b) =>
      match finalFilter verArg ps with
      | .error e => .error e
      | .ok none => .ok none
      | .ok (some l) => .ok (some (if b then p :: l else l))

/-- `Eups.findProducts(name, version, tags)` -/
def listProducts (verArg : Str) (tags : List Str) (stacks : List (List Decl)) : Except Err ListOut :=
  match listStacks verArg tags stacks 0 stacks [] with
  | .error e => .error e
  | .ok none => .ok .badSyntax
  | .ok (some out) =>
    if verArg.isEmpty then .ok (.products (uniqVers out []))
    else if isLegalRelativeVersion verArg = .badSyntax then .ok .badSyntax
    else match finalFilter verArg out with
      | .error e => .error e
      | .ok none => .ok .badSyntax
      | .ok (some l) => .ok (.products (uniqVers l []))

/-! ## a version argument at the other entry points: `findProduct(name, arg)`, `findProductFromVRO(name, version=arg)` -/

def versOf (stacks : List (List Decl)) : List (List Str) := stacks.map fun st => st.map (·.ver)

/-- the declared version `p` carries the tag `t` in its stack -/
def carries (stacks : List (List Decl)) (p : Nat × Str) (t : Str) : Bool :=
  match stacks[p.1]? with
  | some st => (st.find? (fun d => d.ver == p.2)).any fun d => d.tags.contains t
  | none => false

/-- `_selectPreferredProduct(products, preferredTags)`: the first preferred tag that selects something — `latest` selects
the latest of the products, another tag the first product (in the order given) that carries it -/
def selectPreferred (stacks : List (List Decl)) (ms : List (Nat × Str)) : List Str → Except Err (Option (Nat × Str))
  | [] => .ok none
  | t :: ts =>
    if ms.isEmpty then .ok none
    else if t == sLatest then
      match latest (ms.map (·.2)) with
      | .error e => .error e
      | .ok none => selectPreferred stacks ms ts
      | .ok (some k) => .ok ms[k]?
    else match ms.find? (fun p => carries stacks p t) with
      | some p => .ok (some p)
      | none => selectPreferred stacks ms ts

/-- `Eups.findProduct(name, expr)` for a relational request: `_findPreferredProductByExpr` with the preferred tags of
the session (`current` before `latest` by default) -/
def findProductExpr (preferred : List Str) (expr : Str) (stacks : List (List Decl)) : Except Err (Option (Nat × Str)) :=
  match matchesAcross expr (versOf stacks) with
  | .error e => .error e
  | .ok ms => selectPreferred stacks ms preferred

/-- an explicit version: the first stack (path order) that declares exactly this string -/
def exactLookup (v : Str) (i : Nat) : List (List Decl) → Option (Nat × Str)
  | [] => none
  | st :: rest => if st.any (fun d => d.ver == v) then some (i, v) else exactLookup v (i + 1) rest

/-- how `findProductFromVRO(name, version=arg, vro=["version", "versionExpr"])` (the way `setup prod arg` resolves its
argument) ends: refused, nothing, or a product with the VRO entry that found it (`true` = `versionExpr`) -/
inductive Entry
  | badSyntax
  | nothing
  | found (byExpr : Bool) (i : Nat) (v : Str)
  deriving DecidableEq, Repr

def requestEntry (arg : Str) (stacks : List (List Decl)) : Except Err Entry :=
  match isLegalRelativeVersion arg with
  | .badSyntax => .ok .badSyntax
  | .plain =>
    match exactLookup arg 0 stacks with
    | some (i, v) => .ok (.found false i v)
    | none => .ok .nothing
  | .relational =>
    match preferredByExpr arg (versOf stacks) with
    | .error e => .error e
    | .ok (some (i, v)) => .ok (.found true i v)
    | .ok none =>
      -- "If we failed to find a versionExpr, we can still use the explicit version"
      match exactLookup arg 0 stacks with
      | some (i, v) => .ok (.found false i v)
      | none => .ok .nothing

/-! ## `latest` across package repositories: `distrib.Repositories.findPackage(product, Tag("latest"))`

Every repository answers with the last of its versions sorted by the comparator (`Repository.listPackages` sorts,
`findPackage` takes `[-1]`); over the repositories (`EUPS_PKGROOT`, in order) the tree with the repair D5c keeps the
first repository whose latest is strictly later than the candidate — which is `latestAcross` above, the same loop as
over the stacks (running the loop once per preferred flavor, as the code does, changes nothing: ties keep the
first).  The pinned code compared the wrong way round and returned at once otherwise: -/

/-- the pinned loop: the candidate is replaced when it is *later* than the next repository's latest, and the next
repository's latest is returned on the spot when it is not -/
def latestReposPinnedGo (i : Nat) (latest : Option (Nat × Str × Lexed)) : List (List Str) → Except Err (Option (Nat × Str))
  | [] => .ok (latest.map fun (j, v, _) => (j, v))
  | repo :: rest =>
    match lexPairs repo with
    | .error e => .error e
    | .ok ps =>
      match lastMax none ps with
      | none => latestReposPinnedGo (i + 1) latest rest
      | some (v, l) =>
        match latest with
        | none => latestReposPinnedGo (i + 1) (some (i, v, l)) rest
        | some (_, _, lw) =>
          if cmpSort lw l > 0 then latestReposPinnedGo (i + 1) (some (i, v, l)) rest
          else .ok (some (i, v))

/-- the loop over the repositories is run once per preferred flavor (`passes` times: every repository answers every
flavor with its `generic` package), the candidate carried over -/
def latestReposPinned (passes : Nat) (repos : List (List Str)) : Except Err (Option (Nat × Str)) :=
  match latestReposPinnedGo 0 none (List.replicate passes repos).flatten with
  | .error e => .error e
  | .ok none => .ok none
  | .ok (some (i, v)) => .ok (some (i % repos.length, v))

end EupsModel.VersionCmp
