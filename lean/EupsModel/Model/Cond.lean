import EupsModel.Model.Str
/-! Model of `python/eups/VersionParser.py` (the evaluator of table-file conditions) as it stands in the
tree *with* the repair of D3 (`_expr` consumes both operands of `||`; `&&` is parsed one level above
`||` by `_andExpr`).  The evaluator as pinned is in `Model/CondPinned.lean`.

* `unquote`   — `re.sub(r"['\"]([^'\"]+)['\"]", r"\1", exprStr)`
* `tokenize`  — `re.split(r"(\$\??{[^}]+}|[\w.+]+|\s+|==|!=|<=|>=|[()<>])", …)` followed by the filter that drops
                empty and blank pieces
* `lookup/conv/peek/next/push` — `_lookup`, the `int`/bool conversion of `_peek`, `_next`, `_push`
* `prim/term/andLoop/andE/orLoop/orE` — `_prim`, `_term`, `_andExpr`, `_expr` (recursion on fuel; out of fuel
                is the distinct result `Res.fuel`)
* `evalCond`  — `VersionParser(text).define("flavor", …).define("type", …).eval()` followed by the truth test
                of `Table.actions`.

Characters are code points: `(`40 `)`41 `!`33 `=`61 `<`60 `>`62 `|`124 `&`38 `~`126 `+`43 `.`46 `_`95 `$`36
`'`39 `"`34. -/
namespace EupsModel.Cond

/-! ## results -/

/-- exceptions the evaluator can raise (by Python type), plus `unmodelled` for inputs the model declines
(`${ENV}` references, regular expressions outside the literal/dot fragment) -/
inductive Err | runtime | attribute | typeErr | badTable | unmodelled
  deriving DecidableEq, Repr

inductive Res (α : Type) | ok (a : α) | err (e : Err) | fuel
  deriving Repr, DecidableEq

def Res.bind {α β} (x : Res α) (k : α → Res β) : Res β :=
  match x with
  | .ok a => k a
  | .err e => .err e
  | .fuel => .fuel

/-! ## lexical level -/

def isWordCh (c : Nat) : Bool := Str.isAlnum c || c == 95
/-- `[\w.+]` -/
def isTokCh (c : Nat) : Bool := isWordCh c || c == 46 || c == 43
def isQuote (c : Nat) : Bool := c == 39 || c == 34

/-- `re.sub(r"['\"]([^'\"]+)['\"]", r"\1", s)` as a one-pass scanner.  State `some (q, run)`: an opening quote
`q` (not yet emitted) followed by the quote-free characters `run`. -/
def unq : Option (Nat × Str) → Str → Str
  | none, [] => []
  | some (q, run), [] => q :: run
  | none, c :: cs => if isQuote c then unq (some (c, [])) cs else c :: unq none cs
  | some (q, run), c :: cs =>
    if isQuote c then
      match run with
      | [] => q :: unq (some (c, [])) cs          -- `''`: the first quote cannot open a match
      | _ :: _ => run ++ unq none cs               -- closed: keep the inside only
    else unq (some (q, run ++ [c])) cs

def unquote (s : Str) : Str := unq none s

/-- scanner state of the split: inside a run of unmatched characters (`gap`) or inside a `[\w.+]+` match -/
inductive St | gap (g : Str) | word (w : Str)
  deriving DecidableEq, Repr

/-- the piece that ends when the state is left (empty pieces are dropped, as the filter does) -/
def flush : St → List Str
  | .gap [] => []
  | .gap g => [g]
  | .word w => [w]

/-- `==`, `!=`, `<=`, `>=` -/
def isTwoOp (c d : Nat) : Bool := (c == 61 || c == 33 || c == 60 || c == 62) && d == 61
/-- `[()<>]` -/
def isOneOp (c : Nat) : Bool := c == 40 || c == 41 || c == 60 || c == 62

/-- the split pattern applied left to right; blank pieces (`\s+` matches) and empty pieces are not emitted.
A `$` makes the model decline (the `\$\??{[^}]+}` alternative is not modelled). -/
def scan : St → Str → Option (List Str)
  | st, [] => some (flush st)
  | st, [c] =>
    if c == 36 then none
    else if isTokCh c then
      match st with
      | .word w => some [w ++ [c]]
      | .gap _ => some (flush st ++ [[c]])
    else if Str.isSpace c then some (flush st)
    else if isOneOp c then some (flush st ++ [[c]])
    else match st with
      | .gap g => some [g ++ [c]]
      | .word _ => some (flush st ++ [[c]])
  | st, c :: d :: rest =>
    if c == 36 then none
    else if isTokCh c then
      match st with
      | .word w => scan (.word (w ++ [c])) (d :: rest)
      | .gap _ => (scan (.word [c]) (d :: rest)).map (flush st ++ ·)
    else if Str.isSpace c then (scan (.gap []) (d :: rest)).map (flush st ++ ·)
    else if isTwoOp c d then (scan (.gap []) rest).map (flush st ++ [c, d] :: ·)
    else if isOneOp c then (scan (.gap []) (d :: rest)).map (flush st ++ [c] :: ·)
    else match st with
      | .gap g => scan (.gap (g ++ [c])) (d :: rest)
      | .word _ => (scan (.gap [c]) (d :: rest)).map (flush st ++ ·)

/-- `VersionParser.__init__`: the token list of a condition text -/
def tokenize (s : Str) : Option (List Str) := scan (.gap []) (unquote s)

/-! ## values -/

/-- what a token can stand for after `_lookup` and the conversions of `_peek`, and what the operators
return: strings, ints, bools, the list bound to `type`, and the results of `re.search` -/
inductive Val | s (w : Str) | i (n : Nat) | b (x : Bool) | l (ws : List Str) | mt | none
  deriving DecidableEq, Repr

def sEOF : Str := [69, 79, 70]
def sTrue : Str := [84, 114, 117, 101]
def sFalse : Str := [70, 97, 108, 115, 101]
def sFlavor : Str := [102, 108, 97, 118, 111, 114]
def sType : Str := [116, 121, 112, 101]
def sLp : Str := [40]
def sRp : Str := [41]
def sBang : Str := [33]
def sNot : Str := [110, 111, 116]
def sOrOr : Str := [124, 124]
def sOr : Str := [111, 114]
def sAndAnd : Str := [38, 38]
def sAnd : Str := [97, 110, 100]
def sEq : Str := [61, 61]
def sNe : Str := [33, 61]
def sRe : Str := [61, 126]
def sNre : Str := [33, 126]
def sLt : Str := [60]
def sLe : Str := [60, 61]
def sGt : Str := [62]
def sGe : Str := [62, 61]

/-- the symbols `Table.actions` defines: `flavor`, and `type` when the list of setup types is not empty -/
structure Env where
  flavor : Str
  types : List Str
  deriving Repr, DecidableEq

/-- `_lookup` (case-insensitive), without the `${ENV}` branch (declined by `peek`) -/
def lookup (env : Env) (k : Str) : Val :=
  if Str.lower k == sFlavor then .s env.flavor
  else if Str.lower k == sType && !env.types.isEmpty then .l env.types
  else .s k

/-- digits with single underscores between them (what `int()` accepts after an optional `+`) -/
def intBody : Bool → Str → Bool
  | prevDigit, [] => prevDigit
  | prevDigit, c :: cs =>
    if Str.isDigit c then intBody true cs
    else if c == 95 && prevDigit then (match cs with | d :: _ => Str.isDigit d | [] => false) && intBody false cs
    else false

/-- Python `int(w)` on a token (non-negative: `-` is never part of a token) -/
def parseInt (w : Str) : Option Nat :=
  let body := match w with
    | 43 :: r => r
    | _ => w
  if intBody false body then some (Str.toNat (body.filter Str.isDigit)) else none

/-- the `int(tok)` attempt and the `"True"/"False"` test of `_peek` -/
def conv : Val → Val
  | .s w =>
    match parseInt w with
    | some n => .i n
    | none => if w == sTrue then .b true else if w == sFalse then .b false else .s w
  | v => v

/-- Python truth value -/
def truthy : Val → Bool
  | .s w => !w.isEmpty
  | .i n => n != 0
  | .b x => x
  | .l ws => !ws.isEmpty
  | .mt => true
  | .none => false

def pyOr (l r : Val) : Val := if truthy l then l else r
def pyAnd (l r : Val) : Val := if truthy l then r else l

/-- Python `==` on these values (`True == 1`; a match object equals nothing we can build) -/
def pyEq : Val → Val → Bool
  | .s a, .s b => a == b
  | .i a, .i b => a == b
  | .b a, .b b => a == b
  | .i a, .b b => a == (if b then 1 else 0)
  | .b a, .i b => b == (if a then 1 else 0)
  | .l a, .l b => a == b
  | .none, .none => true
  | _, _ => false

/-- `lhs == x` / `x in lhs` as `_term` decides between them -/
def eqOrIn (lhs x : Val) : Bool :=
  match lhs with
  | .l ws => ws.any fun t => pyEq x (.s t)
  | _ => pyEq lhs x

def cmpStrs : List Str → List Str → Int
  | [], [] => 0
  | [], _ :: _ => -1
  | _ :: _, [] => 1
  | a :: as, b :: bs => if Str.cmp a b != 0 then Str.cmp a b else cmpStrs as bs

/-- three-way comparison for `<`, `<=`, `>`, `>=`; `none` = `TypeError` -/
def pyCmp : Val → Val → Option Int
  | .s a, .s b => some (Str.cmp a b)
  | .l a, .l b => some (cmpStrs a b)
  | a, b =>
    let num : Val → Option Nat := fun
      | .i n => some n
      | .b x => some (if x then 1 else 0)
      | _ => Option.none
    match num a, num b with
    | some x, some y => some (if x < y then -1 else if y < x then 1 else 0)
    | _, _ => Option.none

/-- does pattern `p` (literal characters and `.`) match a prefix of `w`? -/
def reAt : Str → Str → Bool
  | [], _ => true
  | _ :: _, [] => false
  | p :: ps, c :: cs => (p == 46 || p == c) && reAt ps cs

def reFind (p : Str) : Str → Bool
  | [] => reAt p []
  | c :: cs => reAt p (c :: cs) || reFind p cs

/-- `re.search(pat, lhs)`: modelled for string operands and patterns made of word characters and `.` -/
def reSearch (pat lhs : Val) : Res Val :=
  match pat, lhs with
  | .s p, .s w => if p.all (fun c => isWordCh c || c == 46) then .ok (if reFind p w then .mt else .none) else .err .unmodelled
  | .s p, _ => if p.all (fun c => isWordCh c || c == 46) then .err .typeErr else .err .unmodelled   -- the pattern is compiled first
  | _, _ => .err .typeErr

/-! ## the token stream -/

/-- `_peek`: the value of the first token.  Tokens are strings; a value that `_push` put back is a token too,
and `_lookup` fails on it with `AttributeError` unless it is a string. -/
def peek (env : Env) : List Val → Res Val
  | [] => .ok (.s sEOF)
  | .s k :: _ => if k.head? == some 36 then .err .unmodelled else .ok (conv (lookup env k))
  | _ :: _ => .err .attribute

/-- `_next`: `"EOF"` is never popped -/
def next (env : Env) (ts : List Val) : Res (Val × List Val) :=
  (peek env ts).bind fun v => if v = .s sEOF then .ok (v, ts) else .ok (v, ts.tail)

/-- `_push` -/
def push (v : Val) (ts : List Val) : List Val := if v = .s sEOF then ts else v :: ts

inductive Op | or | and | eq | ne | re | nre | lt | le | gt | ge | eof | other
  deriving DecidableEq, Repr

/-- which branch of `_expr` / `_andExpr` / `_term` a value in operator position selects -/
def opOf : Val → Op
  | .s w =>
    if w == sEOF then .eof
    else if w == sOrOr || w == sOr then .or
    else if w == sAndAnd || w == sAnd then .and
    else if w == sEq then .eq
    else if w == sNe then .ne
    else if w == sRe then .re
    else if w == sNre then .nre
    else if w == sLt then .lt
    else if w == sLe then .le
    else if w == sGt then .gt
    else if w == sGe then .ge
    else .other
  | _ => .other

abbrev R := Res (Val × List Val)

def cmpRes (lhs x : Val) (test : Int → Bool) (r : List Val) : R :=
  match pyCmp lhs x with
  | some c => .ok (.b (test c), r)
  | Option.none => .err .typeErr

/-! ## the recursive descent (repaired form) -/
mutual
  /-- `_prim` -/
  def prim (env : Env) : Nat → List Val → R
    | 0, _ => .fuel
    | f + 1, ts =>
      (peek env ts).bind fun nx =>
      if nx = .s sLp then
        (next env ts).bind fun p1 =>
        (orE env f p1.2).bind fun p2 =>
        (next env p2.2).bind fun p3 =>
        if p3.1 = .s sRp then .ok (p2.1, p3.2) else .err .runtime
      else if nx = .s sBang ∨ nx = .s sNot then
        (next env ts).bind fun p1 =>
        (orE env f p1.2).bind fun p2 => .ok (.b (!truthy p2.1), p2.2)
      else next env ts
  /-- `_term` -/
  def term (env : Env) : Nat → List Val → R
    | 0, _ => .fuel
    | f + 1, ts =>
      (prim env f ts).bind fun p1 =>
      (next env p1.2).bind fun p2 =>
      match opOf p2.1 with
      | .eof => .ok (p1.1, p2.2)
      | .eq => (prim env f p2.2).bind fun p3 => .ok (.b (eqOrIn p1.1 p3.1), p3.2)
      | .ne => (prim env f p2.2).bind fun p3 => .ok (.b (!eqOrIn p1.1 p3.1), p3.2)
      | .re => (prim env f p2.2).bind fun p3 => (reSearch p3.1 p1.1).bind fun m => .ok (m, p3.2)
      | .nre => (prim env f p2.2).bind fun p3 => (reSearch p3.1 p1.1).bind fun m => .ok (.b (!truthy m), p3.2)
      | .lt => (prim env f p2.2).bind fun p3 => cmpRes p1.1 p3.1 (· < 0) p3.2
      | .le => (prim env f p2.2).bind fun p3 => cmpRes p1.1 p3.1 (· ≤ 0) p3.2
      | .gt => (prim env f p2.2).bind fun p3 => cmpRes p1.1 p3.1 (· > 0) p3.2
      | .ge => (prim env f p2.2).bind fun p3 => cmpRes p1.1 p3.1 (· ≥ 0) p3.2
      | _ => .ok (p1.1, push p2.1 p2.2)
  /-- the `while True` loop of `_andExpr` -/
  def andLoop (env : Env) : Nat → Val → List Val → R
    | 0, _, _ => .fuel
    | f + 1, lhs, ts =>
      (next env ts).bind fun p1 =>
      match opOf p1.1 with
      | .and => (term env f p1.2).bind fun p2 => andLoop env f (pyAnd lhs p2.1) p2.2
      | _ => .ok (lhs, push p1.1 p1.2)
  /-- `_andExpr` -/
  def andE (env : Env) : Nat → List Val → R
    | 0, _ => .fuel
    | f + 1, ts => (term env f ts).bind fun p1 => andLoop env f p1.1 p1.2
  /-- the `while True` loop of `_expr` -/
  def orLoop (env : Env) : Nat → Val → List Val → R
    | 0, _, _ => .fuel
    | f + 1, lhs, ts =>
      (next env ts).bind fun p1 =>
      match opOf p1.1 with
      | .or => (andE env f p1.2).bind fun p2 => orLoop env f (pyOr lhs p2.1) p2.2
      | _ => .ok (lhs, push p1.1 p1.2)
  /-- `_expr` -/
  def orE (env : Env) : Nat → List Val → R
    | 0, _ => .fuel
    | f + 1, ts => (andE env f ts).bind fun p1 => orLoop env f p1.1 p1.2
end

/-- `eval()` on a token list, then the truth test `if parser.eval():` of `Table.actions` -/
def evalToks (env : Env) (fuel : Nat) (ts : List Str) : Res Bool :=
  (orE env fuel (ts.map .s)).bind fun p => .ok (if p.1 = .s sEOF then false else truthy p.1)

/-- the whole of `VersionParser(text)` … `.eval()` as used by `Table.actions` -/
def evalCond (env : Env) (fuel : Nat) (text : Str) : Res Bool :=
  match tokenize text with
  | Option.none => .err .unmodelled
  | some ts => evalToks env fuel ts

/-- the fuel the driver uses: every call level consumes a token or descends one of the six functions -/
def fuelFor (text : Str) : Nat := 6 * text.length + 12

end EupsModel.Cond
