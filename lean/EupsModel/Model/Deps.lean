import EupsModel.Model.Str
import EupsModel.Model.Topo
/-! Model of the dependency listing and of `uses` (property C13):

* `Table.dependencies`            python/eups/table.py l.520-659      → `depsOf` / `depsLoop`
* `Eups.getDependentProducts`     python/eups/Eups.py  l.3054-3214    → `getDependentProducts`
* `utils.topologicalSort`         python/eups/utils.py l.770-885      → `Topo.topologicalSort`
* `Eups.uses`, `Uses.remember/invert/users`  Eups.py l.3347-3398, Uses.py  → `usesInfo`, `users`

The database is abstract: declared `(name, version)` with the setup lines of their table files, and the
version of each name that carries the tag `current`.  Resolution of a dependency line is the simple rule
over one stack with the default VRO (`type:exact commandLine version versionExpr current`): an explicit
version is looked up exactly and never falls through to a tag; no version means the `current` version.
(The full VRO is property C03's model.)  `Eups.findProduct(name, version)` follows the same rule. -/
namespace EupsModel.Deps
open EupsModel

/-- one `setupRequired / setupOptional / unsetupRequired / unsetupOptional` line -/
structure Dep where
  unsetup : Bool
  optional : Bool
  name : Str
  ver : Option Str        -- explicit version, or none
  noRec : Bool            -- `-j`
  external : Bool := false   -- `--external`: tracked but not managed by eups — skipped (`listExternalDependencies=False`)
deriving Repr, DecidableEq

structure Decl where
  name : Str
  ver : Str
  deps : List Dep
  /-- the declared table file does not exist on disk (`Product.getTable` raises `TableFileNotFound`) -/
  tableMissing : Bool := false
deriving Repr, DecidableEq

structure Db where
  decls : List Decl
  current : List (Str × Str)      -- name ↦ version tagged `current`
deriving Repr

/-- a product as `Product.__eq__/__hash__` see it: name, version, flavor.  Declared products carry the
stack's flavor (`real = true`); the placeholder `Product(name, vers)` made for an unresolved
dependency has flavor `None` (`real = false`) and the version *written on the line* (possibly none). -/
structure Prod where
  name : Str
  ver : Option Str
  real : Bool
deriving Repr, DecidableEq

/-- `[product, optional, recursionDepth]` -/
structure Entry where
  prod : Prod
  optional : Bool
  depth : Option Nat       -- `None` when the listing is not recursive
deriving Repr, DecidableEq

def Db.declared (db : Db) (n v : Str) : Bool := db.decls.any fun d => d.name == n && d.ver == v

/-- the setup lines of a product's table (a placeholder has no table) -/
def Db.table (db : Db) (p : Prod) : List Dep :=
  match p.real, p.ver with
  | true, some v =>
    match db.decls.find? (fun d => d.name == p.name && d.ver == v) with
    | some d => d.deps.filter fun x => !x.external     -- both branches `continue` on these lines (`-n` is accepted for the product `eups` only)
    | none => []
  | _, _ => []

/-- `product.getTable()` raises `TableFileNotFound` -/
def Db.tableMissing (db : Db) (p : Prod) : Bool :=
  match p.real, p.ver with
  | true, some v =>
    match db.decls.find? (fun d => d.name == p.name && d.ver == v) with
    | some d => d.tableMissing
    | none => false
  | _, _ => false

/-- `-t TAG` on a setup line (`processArgs`: `requestedVRO = [TAG] + vro`, pushed for this line and popped after it —
also when the line does not resolve or its table cannot be read).  Modelled on the class of tables the harness
generates: the product the line names has no table lines of its own (undeclared, table file missing, or a leaf), so
no other line is resolved while the tag is in front of the VRO, and the tag's whole effect is on the line itself:
the version carrying the tag is taken, whatever version the line writes; without such a version the line is
resolved as written.  (Threading the pushed VRO into the recursion — a tagged line above a product with
dependencies — is not modelled.)  `tagged` maps (product, tag) to the declared version carrying the tag. -/
def applyLineTag (tagged : List ((Str × Str) × Str)) (d : Dep) (tag : Option Str) : Dep :=
  match tag with
  | none => d
  | some t =>
    match tagged.lookup (d.name, t) with
    | some v => { d with ver := some v }
    | none => d

/-- `Eups.findProduct(name, version)` / `findProductFromVRO(name, version)` under the simple rule -/
def Db.find (db : Db) (n : Str) (v : Option Str) : Option Prod :=
  match v with
  | some v => if db.declared n v then some ⟨n, some v, true⟩ else none
  | none =>
    match db.current.lookup n with
    | some v => if db.declared n v then some ⟨n, some v, true⟩ else none
    | none => none

/-- `requiredVersions`: a dict, later assignments win -/
abbrev Required := List (Str × Option Str)

def lookupLast (r : Required) (n : Str) : Option (Option Str) := r.reverse.lookup n

/-- `if requiredVersions and productName in requiredVersions: findProduct(name, required[name])
    else: findProductFromVRO(name, vers)` -/
def resolve (db : Db) (req : Required) (d : Dep) : Option Prod :=
  match lookupLast req d.name with
  | some v => db.find d.name v
  | none => db.find d.name d.ver

/-- `recursiveDict` (keys `(name, version)` of the products already expanded) and
`productDictionary` as the list of its keys and the list of its edges `top → dependency` -/
structure St where
  seen : List (Str × Option Str)
  nodes : List Prod
  edges : List (Prod × Prod)
deriving Repr

def St.empty : St := ⟨[], [], []⟩

def prodkey (p : Prod) : Str × Option Str := (p.name, p.ver)

/-- The body of the `for a in self.actions(...)` loop of `Table.dependencies` for the table of `top`.
(In the unsetup branch `thisProduct.getTable()` of a product whose table file is missing raises out of the loop;
that combination — unsetup lines and a missing table file in one stack — is not modelled.)
`recur p depth st` is the recursive call on the table of `p`; `fresh p` is the call
`table.dependencies(Eups, recursive=True)` of the unsetup branch (fresh visited set, no required
versions), returning the names listed.  `none` = out of fuel somewhere below. -/
def depsLoop (db : Db) (req : Required)
    (recur : Prod → Nat → St → Option (List Entry × St)) (fresh : Prod → Option (List Str))
    (top : Prod) (recursive : Bool) (depth : Nat) :
    List Dep → List Entry → St → Option (List Entry × St)
  | [], acc, st => some (acc, st)
  | d :: ds, acc, st =>
    if d.unsetup then
      -- "Remove all mention of the unsetup product"
      match acc.find? (fun e => e.prod.name == d.name) with
      | none => depsLoop db req recur fresh top recursive depth ds acc st
      | some e =>
        match (if e.prod.real && !d.noRec then fresh e.prod else some []) with
        | none => none
        | some sub =>
          depsLoop db req recur fresh top recursive depth ds
            (acc.filter fun x => !(e.prod.name :: sub).contains x.prod.name) st
    else
      let dp := if recursive then some depth else none
      match resolve db req d with
      | none =>
        -- ProductNotFound: "it doesn't exist, but it's still a dep."
        let p : Prod := ⟨d.name, d.ver, false⟩
        depsLoop db req recur fresh top recursive depth ds (acc ++ [⟨p, d.optional, dp⟩])
          { st with edges := st.edges ++ [(top, p)] }
      | some p =>
        if recursive && !d.noRec && !st.seen.contains (prodkey p) then
          if db.tableMissing p then
            -- `deptable = product.getTable()` raises TableFileNotFound after the entry was appended and the
            -- product marked: the handler appends the placeholder too, and the dictionary records the placeholder
            let ph : Prod := ⟨d.name, d.ver, false⟩
            depsLoop db req recur fresh top recursive depth ds
              (acc ++ [⟨p, d.optional, dp⟩, ⟨ph, d.optional, dp⟩])
              { st with seen := prodkey p :: st.seen, edges := st.edges ++ [(top, ph)] }
          else
          match recur p (depth + 1) { st with seen := prodkey p :: st.seen } with
          | none => none
          | some (sub, st') =>
            depsLoop db req recur fresh top recursive depth ds (acc ++ ⟨p, d.optional, dp⟩ :: sub)
              { st' with edges := st'.edges ++ [(top, p)] }
        else
          depsLoop db req recur fresh top recursive depth ds (acc ++ [⟨p, d.optional, dp⟩])
            { st with edges := st.edges ++ [(top, p)] }

/-- `_unsetupInProgress` (repair of D32): the keys of the products whose unsetup listing is in progress; an
unsetup line naming one of them inside its own listing contributes only the name.  Before the repair the
nested listing was started unconditionally and an unsetup line inside a dependency cycle never returned
(`depsOfPinned`). -/
abbrev Guard := List (Str × Option Str)

/-- `Table.dependencies` on the table of `top` (fuel = remaining Python stack) -/
def depsOfG (db : Db) : Nat → Guard → Required → Prod → Bool → Nat → St → Option (List Entry × St)
  | 0, _, _, _, _, _, _ => none
  | f + 1, g, req, top, recursive, depth, st =>
    depsLoop db req
      (fun p d st' => depsOfG db f g req p true d st')
      (fun p => if g.contains (prodkey p) then some []
                else (depsOfG db f (prodkey p :: g) [] p true 0 St.empty).map fun r => r.1.map (·.prod.name))
      top recursive depth (db.table top) []
      { st with nodes := if st.nodes.contains top then st.nodes else st.nodes ++ [top] }

/-- a listing started from outside: no unsetup listing in progress -/
abbrev depsOf (db : Db) (f : Nat) (req : Required) (top : Prod) (recursive : Bool) (depth : Nat) (st : St) :
    Option (List Entry × St) := depsOfG db f [] req top recursive depth st

/-- the fuel the driver uses: more than any recursion the code can complete on this database
(`Lemmas/DepsGuard.lean`, `depsOf_total`: on every database); running out of it would correspond
to Python's `RecursionError` -/
def Db.fuel (db : Db) : Nat := (db.decls.length + 2) * (db.decls.length + 2)

/-! ### `getDependentProducts` -/

inductive Outcome where
  | ok (l : List Entry)
  | cycle
  | outOfFuel
deriving Repr, DecidableEq

/-- first pass: the recursive listing with the top product itself filtered out -/
def listing (db : Db) (fuel : Nat) (req : Required) (top : Prod) : Option (List Entry × St) :=
  (depsOf db fuel req top true 1 St.empty).map fun r => (r.1.filter (fun e => e.prod != top), r.2)

/-- `pdir`: the input of `topologicalSort` built from the product dictionary -/
def graphOf (st : St) : Topo.Graph Prod :=
  st.nodes.map fun k => (k, (st.edges.filter (fun e => e.1 == k)).map (·.2))

/-- `tsorted_depth`, as the list of assignments `name ↦ nlevel - i - 1` in the order the code makes them -/
def depthAssignments (nlevel : Nat) : Nat → List (List Prod) → List (Str × Nat)
  | _, [] => []
  | i, l :: ls => l.map (fun p => (p.name, nlevel - i - 1)) ++ depthAssignments nlevel (i + 1) ls

def depthOfName (asg : List (Str × Nat)) (n : Str) : Option Nat := asg.reverse.lookup n

/-- `cmp((a[2], a[0].name), (b[2], b[0].name)) <= 0` -/
def entryLe (a b : Entry) : Bool :=
  let da := a.depth.getD 0
  let db := b.depth.getD 0
  da < db || (da == db && Str.cmp a.prod.name b.prod.name ≤ 0)

/-- stable insertion sort (Python's `list.sort` is stable): an element goes before the first later
element that is not smaller -/
def insertS (le : α → α → Bool) (x : α) : List α → List α
  | [] => [x]
  | y :: ys => if le x y then x :: y :: ys else y :: insertS le x ys

def sortStable (le : α → α → Bool) (l : List α) : List α := l.foldr (insertS le) []

/-- "Make dependentProducts unique, but be careful to mark a product that is sometimes required and
sometimes optional as required": keep the last occurrence of every product, optional only if every
occurrence is. -/
def uniqueLast (l : List Entry) : List Entry :=
  let optional (p : Prod) : Bool := (l.filter (fun e => e.prod == p)).all (·.optional)
  let rec go : List Entry → List Prod → List Entry → List Entry     -- over the reversed list
    | [], _, out => out
    | e :: es, seen, out =>
      if seen.contains e.prod then go es seen out
      else go es (e.prod :: seen) (⟨e.prod, optional e.prod, e.depth⟩ :: out)
  go l.reverse [] []

/-- what `getDependentProducts` does with the list `dependentProducts` once the first walk is over -/
def finishListing (db : Db) (fuel : Nat) (top : Prod) (topological checkCycles : Bool) (out : List Entry) : Outcome :=
  if !(topological || checkCycles) then .ok out
  else
    -- second pass with the versions found in the first
    let req : Required := out.map fun e => (e.prod.name, e.prod.ver)
    match listing db fuel req top with
    | none => .outOfFuel
    | some (_, st) =>
      match Topo.topologicalSort (graphOf st) checkCycles with
      | .outOfFuel => .outOfFuel
      | .cycle => .cycle
      | .ok ls =>
        let asg := depthAssignments (ls.length + 1) 0 ls
        let out := out.map fun e =>
          match depthOfName asg e.prod.name with
          | some d => { e with depth := some d }
          | none => e
        .ok (uniqueLast (sortStable entryLe out))

def getDependentProducts (db : Db) (fuel : Nat) (top : Prod) (topological checkCycles : Bool) : Outcome :=
  -- `prodtbl = topProduct.getTable()`; TableFileNotFound is printed and the listing is empty
  if db.tableMissing top then .ok [] else
  match listing db fuel [] top with
  | none => .outOfFuel
  | some (out, _) => finishListing db fuel top topological checkCycles out

/-- `getDependentProducts` by an `Eups` whose setup type holds `exact` (`Eups(exact_version=True)`, `-e`), on tables of
the form `if (type == exact) { … } else { … }` (expandtable's output): the first walk follows the exact branches (`dbE`:
every declaration with the lines of its exact branch), the second walk of the topological / checkCycles modes is made
with `followExact=False` — `Table.dependencies` drops `exact` from a *copy* of the setup type — and follows the else
branches (`db`), with the versions of the first walk required.  The object's own setup type is left as it was, so the
next listing by the same object follows the exact branches again.  (VRO without `type:exact`: the stock VRO appends
`exact` to the setup type at every resolution.) -/
def getDependentProductsExact (dbE db : Db) (fuel : Nat) (top : Prod) (topological checkCycles : Bool) : Outcome :=
  if dbE.tableMissing top then .ok [] else
  match listing dbE fuel [] top with
  | none => .outOfFuel
  | some (out, _) => finishListing db fuel top topological checkCycles out

/-- The default (implicit) product switched on (`hooks.config.Eups.defaultProduct`, stock name `implicitProducts`):
`Table._read` appends `setupOptional(<default product>)` to every table it reads — the default product's own table
included — unless `addDefaultProduct` is `False`, and `Table.dependencies` passes `False` down once it is on the default
product's own table: the products opened *below* the default product get no implicit line.  Modelled as a database
transformation, exact on the class the harness generates (the products below the default product are reached through it
only, so they are always opened without the line): every declaration gets the line at the end of its table except the
products listed from the default product.  (The second pass replaces the default product's edges by its whole closure
and drops `k → default` for `k` in that closure — the same layers on this class.) -/
def Db.withImplicit (db : Db) (dflt : Str) : Db :=
  match db.find dflt none with
  | none => db                       -- not declared (no current version): the optional line resolves nowhere … not generated
  | some ip =>
    let below : List Str := match listing db db.fuel [] ip with
      | some (out, _) => out.map (·.prod.name)
      | none => []
    let line : Dep := { unsetup := false, optional := true, name := dflt, ver := none, noRec := false }
    { db with decls := db.decls.map fun d =>
        if below.contains d.name && d.name != dflt then d else { d with deps := d.deps ++ [line] } }

/-- `setup=True` ("get the version that's actually setup"): every listed product is replaced by the version of it
that is set up (`findSetupProduct`: the declared version the environment names), and dropped when none is
(`shouldRaise=False`: a message for a required one) -/
def adjustSetup (db : Db) (setup : List (Str × Str)) (out : List Entry) : List Entry :=
  out.filterMap fun e =>
    match setup.lookup e.prod.name with
    | some v => if db.declared e.prod.name v then some { e with prod := ⟨e.prod.name, some v, true⟩ } else none
    | none => none

/-- `getDependentProducts(topProduct, setup=True, ...)` as `eups list --dependencies --setup` calls it -/
def getDependentProductsSetup (db : Db) (fuel : Nat) (top : Prod) (setup : List (Str × Str))
    (topological checkCycles : Bool) : Outcome :=
  if db.tableMissing top then .ok [] else
  match listing db fuel [] top with
  | none => .outOfFuel
  | some (out, _) => finishListing db fuel top topological checkCycles (adjustSetup db setup out)

/-! ### the build-order consumer: `Distrib._createDeps` (python/eups/distrib/Distrib.py l.367-480) -/

/-- `dependencies.sort(key=byDepth)` with `byDepth(a) = -a[2]`: deepest first, ties in listing order -/
def buildOrder (out : List Entry) : List Entry :=
  sortStable (fun a b => decide (b.depth.getD 0 ≤ a.depth.getD 0)) out

inductive BuildOutcome where
  | ok (l : List (Str × Option Str × Bool))     -- (product, version, optional) in installation order
  | notFound                                   -- a required dependency cannot be resolved
  | undetermined                               -- "Unable to determine dependencies" (the listing raised)
deriving Repr, DecidableEq

/-- the manifest `_createDeps` builds: the topological listing sorted by decreasing depth, every entry looked up
again (`findProductFromVRO(name, version)`; an optional one that is not found is dropped, a required one raises),
the top product rolled to the end -/
def createDeps (db : Db) (fuel : Nat) (top : Prod) : BuildOutcome :=
  match getDependentProducts db fuel top true false with
  | .ok l =>
    let rec go : List Entry → List (Str × Option Str × Bool) → BuildOutcome
      | [], acc => .ok (acc ++ [(top.name, top.ver, false)])
      | e :: es, acc =>
        match db.find e.prod.name e.prod.ver with
        | some p => go es (acc ++ [(p.name, p.ver, e.optional)])
        | none => if e.optional then go es acc else .notFound
    go (buildOrder l) []
  | _ => .undetermined

/-! ### `uses` -/

/-- `(user, userVersion, Props(version, optional, depth))` -/
structure User where
  name : Str
  ver : Str
  need : Option Str
  optional : Bool
  depth : Nat
deriving Repr, DecidableEq

abbrev SetupBy := List ((Str × Option Str) × List User)

/-- `_setup_by[key].append(val)` -/
def sbAdd (sb : SetupBy) (k : Str × Option Str) (u : User) : SetupBy :=
  if sb.any (fun p => p.1 == k) then sb.map fun p => if p.1 == k then (p.1, p.2 ++ [u]) else p
  else sb ++ [(k, [u])]

/-- per user the entry of minimal depth, the first one on ties (`dmin` / `vmin`) -/
def minPerUser (l : List User) : List User :=
  let users := Topo.dedup (l.map fun u => (u.name, u.ver))
  users.filterMap fun k =>
    let mine := l.filter fun u => (u.name, u.ver) == k
    mine.foldl (fun best u => match best with
      | none => some u
      | some b => if u.depth < b.depth then some u else some b) none

inductive UsesOutcome where
  | ok (sb : SetupBy)
  | cycle
  | outOfFuel
deriving Repr

/-- `Eups.uses()`: the topological listing of every declared product, remembered and inverted -/
def usesInfo (db : Db) (fuel : Nat) : UsesOutcome :=
  let rec go : List Decl → SetupBy → UsesOutcome
    | [], sb => .ok (sb.map fun p => (p.1, minPerUser p.2))
    | d :: ds, sb =>
      match getDependentProducts db fuel ⟨d.name, some d.ver, true⟩ true false with
      | .outOfFuel => .outOfFuel
      | .cycle => .cycle
      | .ok l =>
        go ds (l.foldl (fun sb e => sbAdd sb (e.prod.name, e.prod.ver)
                 ⟨d.name, d.ver, e.prod.ver, e.optional, e.depth.getD 0⟩) sb)
  go db.decls []

/-- `Eups.uses()` by an object in exact mode: every product's topological listing through its exact branch -/
def usesInfoExact (dbE db : Db) (fuel : Nat) : UsesOutcome :=
  let rec go : List Decl → SetupBy → UsesOutcome
    | [], sb => .ok (sb.map fun p => (p.1, minPerUser p.2))
    | d :: ds, sb =>
      match getDependentProductsExact dbE db fuel ⟨d.name, some d.ver, true⟩ true false with
      | .outOfFuel => .outOfFuel
      | .cycle => .cycle
      | .ok l =>
        go ds (l.foldl (fun sb e => sbAdd sb (e.prod.name, e.prod.ver)
                 ⟨d.name, d.ver, e.prod.ver, e.optional, e.depth.getD 0⟩) sb)
  go db.decls []

/-- the repaired sort key of `Uses.users`: user, user's version, then (version needed with `None` as
the empty string, optional, depth) -/
def userLe (a b : User) : Bool :=
  let c := Str.cmp a.name b.name
  if c != 0 then c < 0 else
  let c := Str.cmp a.ver b.ver
  if c != 0 then c < 0 else
  let c := Str.cmp (a.need.getD []) (b.need.getD [])
  if c != 0 then c < 0 else
  if a.optional != b.optional then !a.optional else
  a.depth ≤ b.depth

/-- `Uses.users(productName, versionName)`; no version = every version of the product -/
def users (sb : SetupBy) (n : Str) (v : Option Str) : List User :=
  let hits := sb.filter fun p => p.1.1 == n && (v.isNone || p.1.2 == v)
  sortStable userLe (hits.flatMap (·.2))

/-- `app.printUses` (`eups uses [--optional] [--depth N] product [version]`): one row per user — user, its version,
the version of the product it needs, whether that is optional; an optional user is shown only with `--optional`.
`--depth N` is handed to `Eups.uses(…, depth, usesInfo=…)` and from there to `Uses.invert(depth)`, which does not look
at it: the option changes nothing (modelled as it is). -/
def printUses (us : List User) (showOptional : Bool) (_depth : Nat) : List (Str × Str × Option Str × Bool) :=
  (us.filter fun u => showOptional || !u.optional).map fun u => (u.name, u.ver, u.need, u.optional)

/-! ### the pinned tree (before the repairs D18 and D2): where sorting raised `TypeError`

Not used by the driver: the model mirrors the tree with the repairs.  These definitions say where the
pinned code failed, for the negation witnesses in `Props/C13.lean`. -/

/-- pinned `Table.dependencies` (before the repair of D32): the nested listing of an unsetup line is started
unconditionally, with a fresh visited set — inside a dependency cycle it meets the same line again, without end -/
def depsOfPinned (db : Db) : Nat → Required → Prod → Bool → Nat → St → Option (List Entry × St)
  | 0, _, _, _, _, _ => none
  | f + 1, req, top, recursive, depth, st =>
    depsLoop db req
      (fun p d st' => depsOfPinned db f req p true d st')
      (fun p => (depsOfPinned db f [] p true 0 St.empty).map fun r => r.1.map (·.prod.name))
      top recursive depth (db.table top) []
      { st with nodes := if st.nodes.contains top then st.nodes else st.nodes ++ [top] }

/-- The pinned `Product.__lt__` compared the tuples `(name, version, flavor)`: Python raises `TypeError`
when the comparison reaches `None` against a string — same name and exactly one version `None`, or same name
and version and exactly one flavor `None`. -/
def incomparablePinned (p q : Prod) : Bool :=
  p.name == q.name && ((p.ver.isNone != q.ver.isNone) || (p.ver == q.ver && p.real != q.real))

/-- a comparison sort of a layer holding such a pair compares one such pair directly -/
def layerRaisesPinned (l : List Prod) : Bool := l.any fun p => l.any fun q => incomparablePinned p q

/-- the layers `getDependentProducts(topological=True)` obtains from `topologicalSort`; `none` = out of fuel -/
def topoLayers (db : Db) (fuel : Nat) (top : Prod) (checkCycles : Bool) : Option (Topo.Result Prod) :=
  if db.tableMissing top then none else
  match listing db fuel [] top with
  | none => none
  | some (out, _) =>
    match listing db fuel (out.map fun e => (e.prod.name, e.prod.ver)) top with
    | none => none
    | some (_, st) => some (Topo.topologicalSort (graphOf st) checkCycles)

/-- pinned: the topological listing dies with `TypeError` (D18) -/
def topologicalRaisesPinned (db : Db) (fuel : Nat) (top : Prod) : Bool :=
  match topoLayers db fuel top false with
  | some (.ok ls) => ls.any layerRaisesPinned
  | _ => false

/-- pinned `Uses.users` compared `Props` objects as soon as two entries tied on (user, version): `TypeError` (D2) -/
def usersRaisesPinned (sb : SetupBy) (n : Str) (v : Option Str) : Bool :=
  let l := (sb.filter fun p => p.1.1 == n && (v.isNone || p.1.2 == v)).flatMap (·.2)
  l.any fun a => (l.filter fun b => b.name == a.name && b.ver == a.ver).length > 1

end EupsModel.Deps
