import EupsModel.Model.Str
/-!
# Database records: text format and path canonicalisation / resolution (C16)

Mirrors, in `python/eups`:

* `db/VersionFile.py`  `_read` (l.312-417), `write` (l.419-515), `addFlavor` (l.202-280), `makeProduct` (l.148-179)
* `db/ChainFile.py`    `_read` (l.188-258), `write` (l.131-183), `setVersion`, `removeVersion`
* `Product.py`         `__init__` (table-file default), `resolvePaths` (l.147-266), `_resolve`, `canonicalizePaths`
                       (l.283-343), `stackRoot`
* `db/Database.py`     `declare` (l.424-472: canonicalise, addFlavor, trimDir, write), `findProduct`

Two layers.  The **text layer** works on strings (`Str = List Nat`): lines, `key = value`, comment and quote
stripping, `Group:`/`End:` fix-ups, `QUALIFIERS`.  The **path layer** works on paths as lists of segments with
an `abs` flag; the code's `startswith(x + "/")` tests become segment-prefix tests.  `PVal.ofStr/toStr`
connect the two.  File-system probes (`os.path.exists/isfile/isdir`) are a parameter `ex : Path → Bool`;
`os.path.realpath` is the identity (no symbolic links, normalised absolute paths).
-/
namespace EupsModel.Record

/-! ## String constants (code points) -/
def sNone : Str := [110, 111, 110, 101]
def sQQQ : Str := [63, 63, 63]
def sPNone : Str := [40, 110, 111, 110, 101, 41]
def sUps : Str := [117, 112, 115]
def sUpsDb : Str := [117, 112, 115, 95, 100, 98]
def mUPS_DB : Str := [36, 85, 80, 83, 95, 68, 66]
def mPROD_ROOT : Str := [36, 80, 82, 79, 68, 95, 82, 79, 79, 84]
def mPROD_DIR : Str := [36, 80, 82, 79, 68, 95, 68, 73, 82]
def mUPS_DIR : Str := [36, 85, 80, 83, 95, 68, 73, 82]
def mFLAVOR : Str := [36, 70, 76, 65, 86, 79, 82]
def mPROD_ : Str := [36, 80, 82, 79, 68, 95]
def mUPS_ : Str := [36, 85, 80, 83, 95]
def sDotTable : Str := [46, 116, 97, 98, 108, 101]
def sLOCAL : Str := [76, 79, 67, 65, 76, 58]
def kFile : Str := [102, 105, 108, 101]
def kProduct : Str := [112, 114, 111, 100, 117, 99, 116]
def kVersion : Str := [118, 101, 114, 115, 105, 111, 110]
def kChain : Str := [99, 104, 97, 105, 110]
def kFlavor : Str := [102, 108, 97, 118, 111, 114]
def kQualifiers : Str := [113, 117, 97, 108, 105, 102, 105, 101, 114, 115]
def kProdDir : Str := [112, 114, 111, 100, 95, 100, 105, 114]
def kDeclarer : Str := [100, 101, 99, 108, 97, 114, 101, 114]
def kDeclared : Str := [100, 101, 99, 108, 97, 114, 101, 100]
def kModifier : Str := [109, 111, 100, 105, 102, 105, 101, 114]
def kModified : Str := [109, 111, 100, 105, 102, 105, 101, 100]
def kUpsDir : Str := [117, 112, 115, 95, 100, 105, 114]
def kTableFile : Str := [116, 97, 98, 108, 101, 95, 102, 105, 108, 101]
def lFileVersion : Str := [70, 73, 76, 69, 32, 61, 32, 118, 101, 114, 115, 105, 111, 110]
def lProduct : Str := [80, 82, 79, 68, 85, 67, 84, 32, 61, 32]
def lVersion : Str := [86, 69, 82, 83, 73, 79, 78, 32, 61, 32]
def lChain : Str := [67, 72, 65, 73, 78, 32, 61, 32]
def lStars : Str := 35 :: List.replicate 39 42
def lGroup : Str := [71, 114, 111, 117, 112, 58]
def lHGroup : Str := [35, 71, 114, 111, 117, 112, 58]
def lFlavor : Str := [32, 32, 32, 70, 76, 65, 86, 79, 82, 32, 61, 32]
def lIVersion : Str := [32, 32, 32, 86, 69, 82, 83, 73, 79, 78, 32, 61, 32]
def lQualifiers : Str := [32, 32, 32, 81, 85, 65, 76, 73, 70, 73, 69, 82, 83, 32, 61, 32, 34]
def lEnd : Str := [69, 110, 100, 58]
def lHEnd : Str := [35, 69, 110, 100, 58]
def lDeclarer : Str := [32, 32, 32, 68, 69, 67, 76, 65, 82, 69, 82, 32, 61, 32]
def lDeclared : Str := [32, 32, 32, 68, 69, 67, 76, 65, 82, 69, 68, 32, 61, 32]
def lModifier : Str := [32, 32, 32, 77, 79, 68, 73, 70, 73, 69, 82, 32, 61, 32]
def lModified : Str := [32, 32, 32, 77, 79, 68, 73, 70, 73, 69, 68, 32, 61, 32]
def lProdDir : Str := [32, 32, 32, 80, 82, 79, 68, 95, 68, 73, 82, 32, 61, 32]
def lUpsDir : Str := [32, 32, 32, 85, 80, 83, 95, 68, 73, 82, 32, 61, 32]
def lTableFile : Str := [32, 32, 32, 84, 65, 66, 76, 69, 95, 70, 73, 76, 69, 32, 61, 32]

inductive Err where
  | unexpectedLine      -- RuntimeError("Unexpected line ...")
  | badFile             -- RuntimeError('Expected "File = Version" ...')
  | keyError            -- a field line before any FLAVOR line / missing "version" in a chain block
  | typeError           -- os.path.isfile(None) in VersionFile.write (a PROD_DIR-less block rewritten)
  | noMatch             -- flavor key starting with ':' (re.search returns None in write)
  | notFound            -- ProductNotFound (flavor not in the file)
  | unbound             -- UnboundLocalError: trimDir (Database.declare with an empty prod.dir)
  | unmodelled          -- outside the modelled domain (string slicing of a non-prefix, LOCAL: versions, ...)
  deriving DecidableEq, Repr

/-! ## Text layer -/

def isWord (c : Nat) : Bool := Str.isAlnum c || c == 95

def stripL (s : Str) : Str := s.dropWhile Str.isSpace
def stripR (s : Str) : Str := (s.reverse.dropWhile Str.isSpace).reverse
def strip (s : Str) : Str := stripR (stripL s)

/-- Python `s.split(c)` for a one-character separator: always at least one piece. -/
def splitOn (c : Nat) : Str → List Str
  | [] => [[]]
  | x :: xs =>
    if x = c then [] :: splitOn c xs
    else match splitOn c xs with
      | [] => [[x]]
      | p :: ps => (x :: p) :: ps

def joinWith (c : Nat) : List Str → Str
  | [] => []
  | [l] => l
  | l :: ls => l ++ c :: joinWith c ls

/-- the text of a file whose lines were each written by `print(line, file=fd)` -/
def unlines : List Str → Str
  | [] => []
  | l :: ls => l ++ 10 :: unlines ls

/-- `re.sub(r"#.*$", "", line)` -/
def removeComment (s : Str) : Str := s.takeWhile (· != 35)

/-- `re.search(r"^(End|Group)\s*:", line)` -/
def isGroupEnd (s : Str) : Bool :=
  let after : Option Str :=
    if [69, 110, 100].isPrefixOf s then some (s.drop 3)
    else if [71, 114, 111, 117, 112].isPrefixOf s then some (s.drop 5) else none
  match after with
  | none => false
  | some r => (r.dropWhile Str.isSpace).head? == some 58

/-- `re.search(r"^(\w+)\s*=\s*(.*)", line)` → (group 1, group 2) -/
def keyVal (s : Str) : Option (Str × Str) :=
  let k := s.takeWhile isWord
  if k.isEmpty then none else
  match (s.dropWhile isWord).dropWhile Str.isSpace with
  | 61 :: r => some (k, (r.dropWhile Str.isSpace).takeWhile (· != 10))
  | _ => none

def dropLastIf (c : Nat) (s : Str) : Str :=
  if s.getLast? == some c then s.dropLast else s

/-- `re.sub(r'^"|"$', "", v)`: one leading and one trailing quote, independently -/
def stripQuote1 (v : Str) : Str :=
  match v with
  | 34 :: r => dropLastIf 34 r
  | _ => dropLastIf 34 v

/-- `re.sub(r'^"(.*)"$', r'\1', v)`: a surrounding pair only -/
def stripQuotePair (v : Str) : Str :=
  match v with
  | 34 :: r => if r.getLast? == some 34 then r.dropLast else v
  | _ => v

/-- `v.strip('"')` -/
def stripQuotesAll (v : Str) : Str :=
  ((v.dropWhile (· == 34)).reverse.dropWhile (· == 34)).reverse

/-- one field of a per-flavor dictionary: key absent, key present with `None`, key present with a string -/
inductive Fld where
  | absent | pyNone | val (s : Str)
  deriving DecidableEq, Repr

def Fld.get : Fld → Option Str
  | .val s => some s
  | _ => none

/-- the per-flavor dictionary of a version file (unknown keys are stored by the reader but never looked at
again; they are dropped here) -/
structure Info where
  declarer : Fld := .absent
  declared : Fld := .absent
  modifier : Fld := .absent
  modified : Fld := .absent
  productDir : Fld := .absent
  upsDir : Fld := .absent
  tableFile : Fld := .absent
  deriving DecidableEq, Repr

def Info.set (i : Info) (key v : Str) : Info :=
  if key = kDeclarer then { i with declarer := .val v }
  else if key = kDeclared then { i with declared := .val v }
  else if key = kModifier then { i with modifier := .val v }
  else if key = kModified then { i with modified := .val v }
  else if key = kProdDir then { i with productDir := .val v }
  else if key = kUpsDir then { i with upsDir := .val v }
  else if key = kTableFile then { i with tableFile := .val v }
  else i

/-- `utils.isRealFilename` on a string -/
def isRealStr (s : Str) : Bool := !(s = sNone || s = sQQQ || s = sPNone)

/-- what `_read` does to the current flavor's block when it meets `Group:` or `End:` -/
def Info.fixup (i : Info) : Info :=
  let i := if i.productDir = .absent then { i with productDir := .pyNone } else i
  let i := if i.tableFile = .absent then { i with tableFile := .val sNone } else i
  let real := match i.tableFile with | .val t => isRealStr t | _ => false
  if i.upsDir = .absent && real then { i with upsDir := .val sNone } else i

/-! Python dict operations on association lists (insertion order kept). -/
def dset {β : Type} (d : List (Str × β)) (k : Str) (v : β) : List (Str × β) :=
  match d with
  | [] => [(k, v)]
  | (k', v') :: r => if k' = k then (k, v) :: r else (k', v') :: dset r k v

def dget {β : Type} (d : List (Str × β)) (k : Str) : Option β :=
  match d with
  | [] => none
  | (k', v') :: r => if k' = k then some v' else dget r k

def ddel {β : Type} (d : List (Str × β)) (k : Str) : List (Str × β) := d.filter (·.1 != k)

structure VRec where
  name : Option Str
  version : Option Str
  flavors : List (Str × Info)
  deriving DecidableEq, Repr

structure VState where
  cur : VRec
  flavor : Option Str       -- Python's local `flavor`
  deriving DecidableEq, Repr

def optTruthy : Option Str → Bool
  | some (_ :: _) => true
  | _ => false

def lowerS (s : Str) : Str := Str.lower s

/-- the body of the loop of `VersionFile._read` for a line `key = value` (groups 1 and 2 of the pattern) -/
def vKeyVal (st : VState) (k g2 : Str) : Except Err VState :=
  let key := lowerS k
  let value := stripQuote1 g2
  if key = kFile then
    if lowerS value = kVersion then .ok st else .error .badFile
  else if key = kProduct then
    .ok (if optTruthy st.cur.name then st else { st with cur := { st.cur with name := some value } })
  else if key = kVersion then
    .ok (if optTruthy st.cur.version then st else { st with cur := { st.cur with version := some value } })
  else if key = kFlavor then
    let fl := if (dget st.cur.flavors value).isSome then st.cur.flavors else st.cur.flavors ++ [(value, {})]
    .ok { cur := { st.cur with flavors := fl }, flavor := some value }
  else
    let value := stripQuotePair g2
    match st.flavor with
    | none => if key = kQualifiers && value.isEmpty then .ok st else .error .keyError
    | some f =>
      if key = kQualifiers then
        if value.isEmpty then .ok st else
        match dget st.cur.flavors f with
        | none => .error .keyError
        | some i =>
          let nf := f ++ 58 :: value
          .ok { cur := { st.cur with flavors := ddel (dset st.cur.flavors nf i) f }, flavor := some nf }
      else
        match dget st.cur.flavors f with
        | none => .error .keyError
        | some i => .ok { st with cur := { st.cur with flavors := dset st.cur.flavors f (i.set key value) } }

/-- one iteration of the loop of `VersionFile._read` -/
def vStep (st : VState) (raw : Str) : Except Err VState :=
  let line := removeComment (strip raw)
  if line.isEmpty then .ok st else
  if isGroupEnd line then
    if optTruthy st.flavor then
      match st.flavor with
      | some f =>
        match dget st.cur.flavors f with
        | some i => .ok { st with cur := { st.cur with flavors := dset st.cur.flavors f i.fixup } }
        | none => .error .keyError
      | none => .ok st
    else .ok st
  else
  match keyVal line with
  | none => .error .unexpectedLine
  | some (k, g2) => vKeyVal st k g2

def vLines (st : VState) : List Str → Except Err VState
  | [] => .ok st
  | l :: ls => match vStep st l with
    | .ok st' => vLines st' ls
    | .error e => .error e

/-- `VersionFile(file, productName, version)` on a file with the given text -/
def parseVersion (name version : Option Str) (text : Str) : Except Err VRec :=
  match vLines { cur := { name := name, version := version, flavors := [] }, flavor := none } (splitOn 10 text) with
  | .ok st => .ok st.cur
  | .error e => .error e

/-- `re.search(r"^([^:]+)(:?:(.*)$)?", fq)` → (group 1, group 3 or "") -/
def splitFlavor (fq : Str) : Option (Str × Str) :=
  let f := fq.takeWhile (· != 58)
  if f.isEmpty then none else
  match fq.dropWhile (· != 58) with
  | 58 :: 58 :: r => some (f, r)
  | 58 :: r => some (f, r)
  | _ => some (f, [])

def fldLine (label : Str) (dflt : Option Str) : Fld → List Str
  | .absent => []
  | .pyNone => match dflt with | some d => [label ++ d] | none => []
  | .val [] => match dflt with | some d => [label ++ d] | none => []
  | .val v => [label ++ v]

/-- the field lines of one block, in the order of `VersionFile._fields` -/
def infoLines (i : Info) : List Str :=
  fldLine lDeclarer none i.declarer ++ fldLine lDeclared none i.declared ++
  fldLine lModifier none i.modifier ++ fldLine lModified none i.modified ++
  fldLine lProdDir (some sNone) i.productDir ++ fldLine lUpsDir none i.upsDir ++
  fldLine lTableFile (some sNone) i.tableFile

/-- `os.path.isabs(None)` raises in the loop that strips `trimDir` -/
def Info.hasNone (i : Info) : Bool :=
  i.declarer = .pyNone || i.declared = .pyNone || i.modifier = .pyNone || i.modified = .pyNone ||
  i.productDir = .pyNone || i.tableFile = .pyNone || i.upsDir = .pyNone

def blockLines (fq : Str) (i : Info) : Except Err (List Str) :=
  match splitFlavor fq with
  | none => .error .noMatch
  | some (f, q) =>
    if i.hasNone then .error .typeError
    else .ok ([[], lGroup, lFlavor ++ f, lQualifiers ++ q ++ [34]] ++ infoLines i)

def blocksLines : List (Str × Info) → Except Err (List Str)
  | [] => .ok []
  | (fq, i) :: r =>
    match blockLines fq i, blocksLines r with
    | .ok a, .ok b => .ok (a ++ b)
    | .error e, _ => .error e
    | _, .error e => .error e

def strOf : Option Str → Str
  | some s => s
  | none => sNone ++ []   -- "%s" % None = "None"; never written by eups (names are always set); see `printVersion`

/-- the lines `VersionFile.write` prints (after the trimming of directory names, which is `trimInfo` below).
`none` = the file is removed instead (no flavors). -/
def printVersionLines (r : VRec) : Except Err (Option (List Str)) :=
  if r.flavors.isEmpty then .ok none else
  match r.name, r.version with
  | some n, some v =>
    match blocksLines r.flavors with
    | .ok b => .ok (some ([lFileVersion, lProduct ++ n, lVersion ++ v, lStars] ++ b ++ [lEnd]))
    | .error e => .error e
  | _, _ => .error .unmodelled

def printVersion (r : VRec) : Except Err (Option Str) :=
  match printVersionLines r with
  | .ok (some ls) => .ok (some (unlines ls))
  | .ok none => .ok none
  | .error e => .error e

/-! ### Chain files -/

structure CInfo where
  version : Fld := .absent
  declarer : Fld := .absent
  declared : Fld := .absent
  modifier : Fld := .absent
  modified : Fld := .absent
  deriving DecidableEq, Repr

def CInfo.set (i : CInfo) (key v : Str) : CInfo :=
  if key = kVersion then { i with version := .val v }
  else if key = kDeclarer then { i with declarer := .val v }
  else if key = kDeclared then { i with declared := .val v }
  else if key = kModifier then { i with modifier := .val v }
  else if key = kModified then { i with modified := .val v }
  else i

structure CRec where
  name : Option Str
  tag : Option Str
  flavors : List (Str × CInfo)
  deriving DecidableEq, Repr

structure CState where
  cur : CRec
  flavor : Option Str
  deriving DecidableEq, Repr

/-- the body of the loop of `ChainFile._read` for a line `key = value` -/
def cKeyVal (st : CState) (k g2 : Str) : Except Err CState :=
  let key := lowerS k
  let value := stripQuotesAll g2
  if key = kFile then
    if lowerS value = kChain || lowerS value = kVersion then .ok st else .error .badFile
  else if key = kProduct then
    .ok (if optTruthy st.cur.name then st else { st with cur := { st.cur with name := some value } })
  else if key = kChain then
    .ok (if optTruthy st.cur.tag then st else { st with cur := { st.cur with tag := some value } })
  else if key = kFlavor then
    .ok { cur := { st.cur with flavors := dset st.cur.flavors value {} }, flavor := some value }
  else
    match st.flavor with
    | none => if key = kQualifiers && value.isEmpty then .ok st else .error .keyError
    | some f =>
      if key = kQualifiers then
        if value.isEmpty then .ok st else
        match dget st.cur.flavors f with
        | none => .error .keyError
        | some i =>
          let nf := f ++ 58 :: value
          .ok { cur := { st.cur with flavors := ddel (dset st.cur.flavors nf i) f }, flavor := some nf }
      else
        match dget st.cur.flavors f with
        | none => .error .keyError
        | some i => .ok { st with cur := { st.cur with flavors := dset st.cur.flavors f (i.set key value) } }

/-- one iteration of the loop of `ChainFile._read` -/
def cStep (st : CState) (raw : Str) : Except Err CState :=
  let line := stripL raw
  if line.isEmpty || line.head? == some 35 then .ok st else
  match keyVal line with
  | none => if isGroupEnd line then .ok st else .error .unexpectedLine
  | some (k, g2) => cKeyVal st k g2

def cLines (st : CState) : List Str → Except Err CState
  | [] => .ok st
  | l :: ls => match cStep st l with
    | .ok st' => cLines st' ls
    | .error e => .error e

def parseChain (name tag : Option Str) (text : Str) : Except Err CRec :=
  match cLines { cur := { name := name, tag := tag, flavors := [] }, flavor := none } (splitOn 10 text) with
  | .ok st => .ok st.cur
  | .error e => .error e

def cInfoLines (i : CInfo) : List Str :=
  fldLine lDeclarer none i.declarer ++ fldLine lDeclared none i.declared ++
  fldLine lModifier none i.modifier ++ fldLine lModified none i.modified

def cBlockLines (fq : Str) (i : CInfo) : Except Err (List Str) :=
  match splitFlavor fq, i.version with
  | none, _ => .error .noMatch
  | some (f, q), .val v =>
    .ok ([[], lHGroup, lFlavor ++ f, lIVersion ++ v, lQualifiers ++ q ++ [34]] ++ cInfoLines i ++ [lHEnd])
  | some _, _ => .error .keyError

def cBlocksLines : List (Str × CInfo) → Except Err (List Str)
  | [] => .ok []
  | (fq, i) :: r =>
    match cBlockLines fq i, cBlocksLines r with
    | .ok a, .ok b => .ok (a ++ b)
    | .error e, _ => .error e
    | _, .error e => .error e

def printChainLines (r : CRec) : Except Err (Option (List Str)) :=
  if r.flavors.isEmpty then .ok none else
  match r.name, r.tag with
  | some n, some t =>
    match cBlocksLines r.flavors with
    | .ok b => .ok (some ([lFileVersion, lProduct ++ n, lChain ++ t, lStars] ++ b))
    | .error e => .error e
  | _, _ => .error .unmodelled

def printChain (r : CRec) : Except Err (Option Str) :=
  match printChainLines r with
  | .ok (some ls) => .ok (some (unlines ls))
  | .ok none => .ok none
  | .error e => .error e

/-- `ChainFile.setVersion(version, [flavor])` with the clock/user strings supplied -/
def CRec.setVersion (r : CRec) (flavor version who now : Str) : CRec :=
  let i : CInfo := match dget r.flavors flavor with
    | some i => { i with modifier := .val who, modified := .val now, version := .val version }
    | none => { declarer := .val who, declared := .val now, version := .val version }
  { r with flavors := dset r.flavors flavor i }

def CRec.removeVersion (r : CRec) (flavor : Str) : CRec := { r with flavors := ddel r.flavors flavor }

def CRec.getVersion (r : CRec) (flavor : Str) : Option Str :=
  match dget r.flavors flavor with
  | some i => i.version.get
  | none => none

/-! ## A product directory of the database: the version and chain records of one product

`Database.undeclare`, `unassignTag` and `assignTag` (db/Database.py l.474-518, 630-681, 568-627) as operations on the
parsed records.  A record whose last flavor goes is removed from the directory (`write()` deletes the file). -/

structure PDir where
  versions : List (Str × VRec)    -- version name ↦ `<version>.version`
  chains : List (Str × CRec)      -- tag ↦ `<tag>.chain`, in directory-listing order
  deriving DecidableEq, Repr

def putC (l : List (Str × CRec)) (tag : Str) (r : CRec) : List (Str × CRec) :=
  if r.flavors.isEmpty then ddel l tag else dset l tag r

def putV (l : List (Str × VRec)) (version : Str) (r : VRec) : List (Str × VRec) :=
  if r.flavors.isEmpty then ddel l version else dset l version r

/-- `Database.unassignTag(tag, name, flavor)` -/
def PDir.unassignTag (d : PDir) (tag flavor : Str) : PDir :=
  match dget d.chains tag with
  | none => d
  | some r =>
    if (dget r.flavors flavor).isSome then { d with chains := putC d.chains tag (r.removeVersion flavor) } else d

/-- the tags `Database.findTags(name, version, flavor)` reports, in directory-listing order -/
def PDir.findTags (d : PDir) (version flavor : Str) : List Str :=
  d.chains.filterMap fun (t, r) => if r.getVersion flavor = some version then some t else none

/-- `Database.undeclare(product)`: the flavor's tags first, then its block of the version file -/
def PDir.undeclare (d : PDir) (version flavor : Str) : PDir :=
  match dget d.versions version with
  | none => d
  | some vr =>
    if (dget vr.flavors flavor).isNone then d else
    let d1 := (d.findTags version flavor).foldl (fun d t => d.unassignTag t flavor) d
    { d1 with versions := putV d1.versions version { vr with flavors := ddel vr.flavors flavor } }

/-- `Database.assignTag(tag, name, version, flavor)`; nothing happens (ProductNotFound) unless the flavor is declared -/
def PDir.assignTag (d : PDir) (name tag version flavor who now : Str) : PDir :=
  match dget d.versions version with
  | none => d
  | some vr =>
    if (dget vr.flavors flavor).isNone then d else
    let r : CRec := match dget d.chains tag with
      | some r => r
      | none => { name := some name, tag := some tag, flavors := [] }
    { d with chains := dset d.chains tag (r.setVersion flavor version who now) }

/-- the block of flavor `f` in the chain record of `tag` / the version record of `version`, if there is one -/
def PDir.blockC (d : PDir) (tag f : Str) : Option CInfo := (dget d.chains tag).bind fun r => dget r.flavors f
def PDir.blockV (d : PDir) (version f : Str) : Option Info := (dget d.versions version).bind fun r => dget r.flavors f

/-! ## Path layer -/

structure Path where
  abs : Bool
  segs : List Str
  deriving DecidableEq, Repr

/-- a path-valued attribute of `Product`: `None`, a placeholder (`"none"`, `"???"`, `"(none)"`), or a path -/
inductive PVal where
  | null
  | ph (s : Str)
  | path (p : Path)
  deriving DecidableEq, Repr

def Path.ofStr (s : Str) : Path :=
  { abs := s.head? == some 47, segs := (splitOn 47 s).filter (!·.isEmpty) }

def Path.toStr (p : Path) : Str := (if p.abs then [47] else []) ++ joinWith 47 p.segs

def PVal.ofStr (s : Str) : PVal := if isRealStr s then .path (Path.ofStr s) else .ph s

def PVal.ofOpt : Option Str → PVal
  | none => .null
  | some s => PVal.ofStr s

def PVal.toStr : PVal → Option Str
  | .null => none
  | .ph s => some s
  | .path p => some p.toStr

/-- `utils.isRealFilename` -/
def PVal.isReal : PVal → Bool
  | .path _ => true
  | _ => false

/-- Python truthiness of the attribute -/
def PVal.truthy : PVal → Bool
  | .null => false
  | .ph s => !s.isEmpty
  | .path p => p.abs || !p.segs.isEmpty

def PVal.isAbs : PVal → Bool
  | .path p => p.abs
  | _ => false

/-- the attribute as an operand of `os.path.join` (a placeholder is a one-segment relative name) -/
def PVal.asPath : PVal → Option Path
  | .null => none
  | .ph s => some { abs := false, segs := [s] }
  | .path p => some p

/-- `os.path.join(a, b)` -/
def Path.join (a b : Path) : Path := if b.abs then b else { abs := a.abs, segs := a.segs ++ b.segs }

def Path.rel (segs : List Str) : Path := { abs := false, segs := segs }

/-- `p.startswith(root + "/")`, and then `p[len(root)+1:]` -/
def Path.under (p root : Path) : Option (List Str) :=
  if p.abs = root.abs && root.segs.isPrefixOf p.segs && root.segs.length < p.segs.length
  then some (p.segs.drop root.segs.length) else none

/-- `utils.isSubpath(p, root)`: equal or below -/
def Path.subpath (p root : Path) : Bool := p.abs = root.abs && root.segs.isPrefixOf p.segs

def Path.dirname (p : Path) : Path := { p with segs := p.segs.dropLast }
def Path.basename (p : Path) : List Str := match p.segs.getLast? with | some s => [s] | none => []

/-- `Product.stackRoot()` for a non-`None` db -/
def stackRoot (db : Path) : Path :=
  if db.segs.getLast? = some sUpsDb then db.dirname else db

def headStartsWith (p : Path) (pre : Str) : Bool :=
  !p.abs && match p.segs with | s :: _ => pre.isPrefixOf s | [] => false

/-- `v.startswith("$PROD_") or v.startswith("$UPS_")` -/
def isMacroPath (p : Path) : Bool := headStartsWith p mPROD_ || headStartsWith p mUPS_

/-- `re.sub(r"\$FLAVOR\b", flavor, s)` inside one segment; the first argument counts characters still to be
skipped after a match (so that the recursion is structural) -/
def substFlavorAux (flavor : Str) : Nat → Str → Str
  | _, [] => []
  | n + 1, _ :: r => substFlavorAux flavor n r
  | 0, c :: r =>
    if c = 36 && mFLAVOR.tail.isPrefixOf r && !(match r.drop 6 with | d :: _ => isWord d | [] => false)
    then flavor ++ substFlavorAux flavor 6 r
    else c :: substFlavorAux flavor 0 r

def substFlavor (flavor : Str) (s : Str) : Str := substFlavorAux flavor 0 s

/-- `re.sub(r"^\$NAME\b", repl, v)`: the macro must be the whole first segment of a relative path -/
def substHead (name : Str) (repl : Option Path) (v : Path) : Path :=
  match repl with
  | none => v
  | some r =>
    if !v.abs && v.segs.head? = some name && (r.abs || !r.segs.isEmpty)
    then { abs := r.abs, segs := r.segs ++ v.segs.tail } else v

structure Macros where
  flavor : Str
  prodRoot : Path
  upsDb : Path
  prodDir : Option Path := none
  upsDir : Option Path := none

/-- `Product._resolve(value, macrodata, skip)`; the dictionary order is FLAVOR, PROD_ROOT, UPS_DB and then
PROD_DIR, UPS_DIR as they were added. -/
def resolveMacros (m : Macros) (skipProdDir : Bool) (v : Path) : Path :=
  if !(v.abs || !v.segs.isEmpty) then v else
  let v := if m.flavor.isEmpty then v else { v with segs := v.segs.map (substFlavor m.flavor) }
  let v := substHead mPROD_ROOT (some m.prodRoot) v
  let v := substHead mUPS_DB (some m.upsDb) v
  let v := if skipProdDir then v else substHead mPROD_DIR m.prodDir v
  substHead mUPS_DIR m.upsDir v

def hasDollar (p : Path) : Bool := p.segs.any (·.contains 36)

/-- the attributes of `eups.Product` that matter here -/
structure Prod where
  name : Str
  version : Str
  flavor : Str
  dir : PVal
  table : PVal
  upsDir : PVal
  db : Path
  deriving DecidableEq, Repr

def tableName (name : Str) : Path := Path.rel [name ++ sDotTable]

/-- `Product.__init__`: the default table file `dir/ups/<name>.table` when none was given and it exists
(relative directories are probed against the current directory, assumed to hold nothing of the kind) -/
def Prod.init (ex : Path → Bool) (p : Prod) : Prod :=
  if !p.table.truthy && p.dir.truthy && !p.name.isEmpty then
    match p.dir with
    | .path d =>
      let t := (d.join (Path.rel [sUps])).join (tableName p.name)
      if t.abs && ex t then { p with table := .path t } else p
    | _ => p
  else p

/-- `Product.resolvePaths()` -/
def resolvePaths (ex : Path → Bool) (p : Prod) : Except Err Prod :=
  let root := stackRoot p.db
  let m : Macros := { flavor := p.flavor, prodRoot := root, upsDb := p.db }
  -- product directory
  let (dir, m) := match p.dir with
    | .path d =>
      if !d.abs then
        let d := if !isMacroPath d then root.join d else d
        let d := resolveMacros m false d
        (PVal.path d, { m with prodDir := some d })
      else (p.dir, m)
    | _ => (p.dir, m)
  -- ups directory
  let upsR : Except Err (PVal × Macros) := match p.upsDir with
    | .path u =>
      if !u.abs then
        let uj : Except Err Path :=
          if !isMacroPath u then
            match dir with
            | .null => .ok u
            | .ph s => if s = sNone then .ok u else .error .unmodelled
            | .path d => .ok (d.join u)
          else .ok u
        match uj with
        | .error e => .error e
        | .ok u =>
          let u := resolveMacros m false u
          .ok (PVal.path u, { m with upsDir := some u })
      else .ok (p.upsDir, m)
    | _ => .ok (p.upsDir, m)
  match upsR with
  | .error e => .error e
  | .ok (upsDir, m) =>
  -- table file
  let table := if p.table = .null && !p.name.isEmpty && (dir.isReal || upsDir.isReal)
    then PVal.path (tableName p.name) else p.table
  let (table, upsDir) := match table with
    | .path t =>
      if !t.abs then
        let (t, upsDir) :=
          if !isMacroPath t then
            let upsDir := match upsDir, dir with
              | .null, .path d => PVal.path (d.join (Path.rel [sUps]))
              | u, _ => u
            match upsDir with
            | .path u =>
              let nt := u.join t
              let n2 := root.join t
              ((if ex nt then nt else if ex n2 then n2 else nt), upsDir)
            | _ =>
              match dir with
              | .path d => (d.join t, upsDir)
              | _ => (t, upsDir)
          else (t, upsDir)
        (PVal.path (resolveMacros m false t), upsDir)
      else (table, upsDir)
    | _ => (table, upsDir)
  -- one last try
  let (dir, m) := match dir with
    | .path d => if hasDollar d then
        let d := resolveMacros m true d
        (PVal.path d, { m with prodDir := some d })
      else (dir, m)
    | _ => (dir, m)
  let table := match table with
    | .path t => if hasDollar t then PVal.path (resolveMacros m false t) else table
    | _ => table
  .ok { p with dir := dir, table := table, upsDir := upsDir }

/-- `Product.canonicalizePaths()` -/
def canonicalizePaths (p : Prod) : Except Err Prod :=
  let root := stackRoot p.db
  let dbm := Path.rel [mUPS_DB]
  -- a missing table file name
  let (table, upsDir) :=
    if p.table = .null then
      ((if p.name.isEmpty then p.table else PVal.path (tableName p.name)),
       (match p.upsDir, p.dir with
        | .null, .path d => PVal.path (d.join (Path.rel [sUps]))
        | u, _ => u))
    else (p.table, p.upsDir)
  -- table file
  let tu : Except Err (PVal × PVal) := match table with
    | .path t =>
      if t.abs then
        if t.subpath p.db then     -- `self.tablefile.startswith(self.db)`
          match upsDir with
          | .null =>
            match t.dirname.under p.db with
            | some mid => .ok (.path (Path.rel t.basename), .path (dbm.join (Path.rel mid)))
            | none => if t.dirname = p.db then .ok (.path (Path.rel t.basename), .path dbm)
                      else .error .unmodelled
          | .path u =>
            match u.under p.db with
            | some rest => .ok (.path (dbm.join (Path.rel rest)), upsDir)
            | none => .error .unmodelled
          | .ph _ => .error .unmodelled
        else match upsDir with
          | .path u =>
            match t.under u with
            | some rest => .ok (.path (Path.rel rest), upsDir)
            | none => .ok (table, upsDir)
          | _ =>
            match p.dir with
            | .path d =>
              match t.under d with
              | some rest => .ok (.path (Path.rel rest), upsDir)
              | none => .ok (table, upsDir)
            | _ => .ok (table, upsDir)
      else .ok (table, upsDir)
    | _ => .ok (table, upsDir)
  match tu with
  | .error e => .error e
  | .ok (table, upsDir) =>
  -- ups directory
  let upsDir := match upsDir with
    | .path u =>
      if u.abs then
        let viaDir : Option PVal := match p.dir with
          | .path d =>
            match u.under d with
            | some rest => some (.path (Path.rel rest))
            | none => if u = d then some (.ph sNone) else none
          | _ => none
        match viaDir with
        | some v => v
        | none =>
          match u.under p.db with
          | some rest => .path (dbm.join (Path.rel rest))
          | none => if u = p.db then .path dbm else upsDir
      else upsDir
    | _ => upsDir
  -- product directory
  let dir := match p.dir with
    | .path d => match d.under root with
      | some rest => PVal.path (Path.rel rest)
      | none => p.dir
    | _ => p.dir
  .ok { p with dir := dir, table := table, upsDir := upsDir }

/-- the three path-valued entries of a per-flavor dictionary at path level; `none` = key absent -/
structure PInfo where
  productDir : Option PVal := none
  tableFile : Option PVal := none
  upsDir : Option PVal := none
  deriving DecidableEq, Repr

/-- the path part of `VersionFile.addFlavor(flavor, installdir, tablefile, upsdir)`; `old` is the block
already in the file for that flavor, if any -/
def addFlavorPaths (old : Option PInfo) (installdir tablefile upsdir : PVal) : PInfo :=
  let pick (v : PVal) (o : Option PVal) : PVal := if !v.truthy then (match o with | some x => x | none => v) else v
  let (installdir, upsdir, tablefile) := match old with
    | some o => (pick installdir o.productDir, pick upsdir o.upsDir, pick tablefile o.tableFile)
    | none => (installdir, upsdir, tablefile)
  let pd : Option PVal := if installdir.truthy then some installdir else none
  let (tf, upsdir) : Option PVal × PVal :=
    if tablefile.truthy then
      match installdir, tablefile with
      | .path d, .path t =>
        if t.abs then
          match t.under d with
          | some rest =>
            if upsdir != .ph sNone then
              let r := Path.rel rest
              if r.dirname.segs.isEmpty then (some (.path r), .ph sNone)
              else (some (.path (Path.rel r.basename)), .path r.dirname)
            else (some (.path (Path.rel rest)), upsdir)
          | none => (some tablefile, upsdir)
        else (some tablefile, upsdir)
      | _, _ => (some tablefile, upsdir)
    else (none, upsdir)
  let upsdir := if upsdir.truthy then
      match installdir, upsdir with
      | .path d, .path u => if u.abs then (match u.under d with | some rest => .path (Path.rel rest) | none => upsdir) else upsdir
      | _, _ => upsdir
    else upsdir
  let upsdir := if upsdir = .null then .ph sNone else upsdir
  { productDir := pd, tableFile := tf, upsDir := some upsdir }

inductive PKey | dir | table | ups deriving DecidableEq, Repr

def PInfo.getK (i : PInfo) : PKey → Option PVal
  | .dir => i.productDir | .table => i.tableFile | .ups => i.upsDir
def PInfo.setK (i : PInfo) (k : PKey) (v : PVal) : PInfo :=
  match k with
  | .dir => { i with productDir := some v }
  | .table => { i with tableFile := some v }
  | .ups => { i with upsDir := some v }

/-- one iteration of the "strip trimDir from directory names" loop of `VersionFile.write`
(only absolute values are probed: fix of D41) -/
def trimKey (ex : Path → Bool) (trimDir : Option Path) (i : PInfo) (k : PKey) : PInfo :=
  match i.getK k, trimDir with
  | some (.path v), some td =>
    if v.abs && ex v then
      match v.under td with
      | some rest =>
        let i := i.setK k (.path (Path.rel rest))
        if k = .table then
          let dirName : Option Path := match i.productDir with
            | some pv => if pv.truthy then
                (match pv.asPath, i.upsDir with
                 | some d, some u => (match u.asPath with | some up => some (d.join up) | none => some d)
                 | some d, none => some d
                 | none, _ => none)
              else none
            | none => none
          match dirName with
          | some dn =>
            match (Path.rel rest).under dn with
            | some r2 => i.setK k (.path (Path.rel r2))
            | none => i
          | none => i
        else i
      | none => i
    else i
  | _, _ => i

def trimInfo (ex : Path → Bool) (trimDir : Option Path) (order : List PKey) (i : PInfo) : PInfo :=
  order.foldl (trimKey ex trimDir) i

/-- dictionary order of a block built by `addFlavor` / of a block read from a file -/
def orderNew : List PKey := [.dir, .table, .ups]
def orderFile : List PKey := [.dir, .ups, .table]

def fldOfP : Option PVal → Fld
  | none => .absent
  | some v => match v.toStr with | some s => .val s | none => .pyNone

def pOfFld : Fld → Option PVal
  | .absent => none
  | .pyNone => some .null
  | .val s => some (PVal.ofStr s)

def Info.paths (i : Info) : PInfo :=
  { productDir := pOfFld i.productDir, tableFile := pOfFld i.tableFile, upsDir := pOfFld i.upsDir }

def Info.withPaths (i : Info) (p : PInfo) : Info :=
  { i with productDir := fldOfP p.productDir, tableFile := fldOfP p.tableFile, upsDir := fldOfP p.upsDir }

/-- a block after the trimming loop: an entry the loop did not change keeps its string exactly -/
def Info.withTrim (i : Info) (p : PInfo) : Info :=
  let keep (old : Fld) (new : Option PVal) : Fld := if pOfFld old = new then old else fldOfP new
  { i with productDir := keep i.productDir p.productDir, tableFile := keep i.tableFile p.tableFile,
           upsDir := keep i.upsDir p.upsDir }

/-- the stamp part of `addFlavor` -/
def stamp (old : Option Info) (who now : Str) : Info :=
  match old with
  | some o =>
    if o.declarer != .absent || o.declared != .absent then
      { declarer := o.declarer, declared := o.declared, modifier := .val who, modified := .val now }
    else { declarer := .val who, declared := .val now }
  | none => { declarer := .val who, declared := .val now }

/-- the path part of `Database.declare(product)`: canonicalise, `addFlavor`, choose `trimDir`, trim the new
block.  Returns the canonicalised product and the block's path entries as they are written. -/
def declarePaths (ex : Path → Bool) (p : Prod) (old : Option PInfo) : Except Err (Prod × PInfo) :=
  match canonicalizePaths p with
  | .error e => .error e
  | .ok c =>
  if !c.table.truthy then .error .unmodelled else
  let pi := addFlavorPaths old c.dir c.table c.upsDir
  if !c.dir.truthy then .error .unbound else
  let root := stackRoot c.db
  let trimDir := if ex root then some root else none
  .ok (c, trimInfo ex trimDir orderNew pi)

/-- `Database.declare(product)` on the version record.  `vr` is what `VersionFile(vfile, name, version)` read
(empty when the file does not exist); the blocks of the other flavors go through the trimming loop too. -/
def declareRec (ex : Path → Bool) (who now : Str) (vr : VRec) (p : Prod) : Except Err VRec :=
  let old := dget vr.flavors p.flavor
  match declarePaths ex p (old.map Info.paths) with
  | .error e => .error e
  | .ok (c, pi) =>
  let root := stackRoot c.db
  let trimDir := if ex root then some root else none
  let others := vr.flavors.map fun (f, i) =>
    (f, if f = p.flavor then i else i.withTrim (trimInfo ex trimDir orderFile i.paths))
  .ok { vr with flavors := dset others p.flavor ((stamp old who now).withPaths pi) }

/-! ### The same with symbolic links: `os.path.realpath` as a parameter

`VersionFile.write` is the one place of the declaration path that resolves symbolic links: `trimDir = realpath(trimDir)`,
`isSubpath(value, trimDir)` compares real paths, and the value that is cut is `realpath(value)`.  (`canonicalizePaths` and
`addFlavor` compare the strings as they were typed.)  `real` = `os.path.realpath` on absolute paths; the functions
above are the case `real = id` (`declareRecR_id`). -/

def trimKeyR (real : Path → Path) (ex : Path → Bool) (trimDir : Option Path) (i : PInfo) (k : PKey) : PInfo :=
  match i.getK k, trimDir with
  | some (.path v), some td =>
    if v.abs && ex v then
      match (real v).under (real td) with
      | some rest =>
        let i := i.setK k (.path (Path.rel rest))
        if k = .table then
          let dirName : Option Path := match i.productDir with
            | some pv => if pv.truthy then
                (match pv.asPath, i.upsDir with
                 | some d, some u => (match u.asPath with | some up => some (d.join up) | none => some d)
                 | some d, none => some d
                 | none, _ => none)
              else none
            | none => none
          match dirName with
          | some dn =>
            match (Path.rel rest).under dn with
            | some r2 => i.setK k (.path (Path.rel r2))
            | none => i
          | none => i
        else i
      | none => i
    else i
  | _, _ => i

def trimInfoR (real : Path → Path) (ex : Path → Bool) (trimDir : Option Path) (order : List PKey) (i : PInfo) : PInfo :=
  order.foldl (trimKeyR real ex trimDir) i

def declarePathsR (real : Path → Path) (ex : Path → Bool) (p : Prod) (old : Option PInfo) : Except Err (Prod × PInfo) :=
  match canonicalizePaths p with
  | .error e => .error e
  | .ok c =>
  if !c.table.truthy then .error .unmodelled else
  let pi := addFlavorPaths old c.dir c.table c.upsDir
  if !c.dir.truthy then .error .unbound else
  let root := stackRoot c.db
  let trimDir := if ex root then some root else none
  .ok (c, trimInfoR real ex trimDir orderNew pi)

def declareRecR (real : Path → Path) (ex : Path → Bool) (who now : Str) (vr : VRec) (p : Prod) : Except Err VRec :=
  let old := dget vr.flavors p.flavor
  match declarePathsR real ex p (old.map Info.paths) with
  | .error e => .error e
  | .ok (c, pi) =>
  let root := stackRoot c.db
  let trimDir := if ex root then some root else none
  let others := vr.flavors.map fun (f, i) =>
    (f, if f = p.flavor then i else i.withTrim (trimInfoR real ex trimDir orderFile i.paths))
  .ok { vr with flavors := dset others p.flavor ((stamp old who now).withPaths pi) }

/-- `os.path.realpath` for a tree whose only symbolic links are `links` (link ↦ target, both absolute): the first
link that is a prefix of the path is replaced by its target -/
def realOf (links : List (Path × Path)) (p : Path) : Path :=
  match links.find? (fun l => p.subpath l.1) with
  | some l => { abs := l.2.abs, segs := l.2.segs ++ p.segs.drop l.1.segs.length }
  | none => p

/-- `Product(name, version, flavor, dir, table, db=db, ups_dir=ups_dir).resolvePaths()` from the path entries
of a block -/
def resolveInfo (ex : Path → Bool) (name version flavor : Str) (db : Path) (i : PInfo) : Except Err Prod :=
  let get (o : Option PVal) : PVal := match o with | some v => v | none => .null
  let p : Prod := { name := name, version := version, flavor := flavor, dir := get i.productDir,
                    table := get i.tableFile, upsDir := get i.upsDir, db := db }
  resolvePaths ex (p.init ex)

/-- `VersionFile.makeProduct(flavor, eupsPathDir, dbpath)` -/
def makeProduct (ex : Path → Bool) (vr : VRec) (flavor : Str) (db : Path) : Except Err Prod :=
  match dget vr.flavors flavor with
  | none => .error .notFound
  | some i =>
    let version := strOf vr.version
    if sLOCAL.isPrefixOf version then .error .unmodelled else
    resolveInfo ex (strOf vr.name) version flavor db i.paths

/-- `Product.extraProductDir()` -/
def extraDir (p : Prod) : Path := p.db.join (Path.rel [p.flavor, p.name, p.version])

/-! ## Specification side: placements and relocation -/

/-- Where the product directory is, relative to the stack `root`. -/
inductive DirPl where
  | inside (rel : List Str)       -- root/rel
  | outside (segs : List Str)     -- an absolute path that is not under the stack
  | none                          -- "none"
  deriving DecidableEq, Repr

/-- Where the table file is. -/
inductive TabPl where
  | inUps                         -- <dir>/ups/<name>.table  (the default)
  | absInside (rel : List Str)    -- an absolute path inside the stack, not in <dir>/ups
  | absOutside (segs : List Str)  -- an absolute path outside the stack
  | interned                      -- copied into ups_db/<flavor>/<name>/<version>/ups/<name>.table
  | none                          -- "none"
  deriving DecidableEq, Repr

def absP (segs : List Str) : Path := { abs := true, segs := segs }

def DirPl.at (root : List Str) : DirPl → PVal
  | .inside rel => .path (absP (root ++ rel))
  | .outside s => .path (absP s)
  | .none => .ph sNone

/-- where a reader of the stack at `root` must find the table file -/
def TabPl.at (root : List Str) (name version flavor : Str) (d : DirPl) : TabPl → PVal
  | .inUps => match d.at root with
    | .path dp => .path (absP (dp.segs ++ [sUps, name ++ sDotTable]))
    | v => v
  | .absInside rel => .path (absP (root ++ rel))
  | .absOutside s => .path (absP s)
  | .interned => .path (absP (root ++ [sUpsDb, flavor, name, version, sUps, name ++ sDotTable]))
  | .none => .ph sNone

/-- the `Product` that `Eups.declare` hands to `Database.declare` for a placement (the glue of
`Eups.declare` l.2420-2528, 2627: `ups_dir`, interning, the full table-file name) -/
def declaredProd (root : List Str) (name version flavor : Str) (d : DirPl) (t : TabPl) : Prod :=
  let db := absP (root ++ [sUpsDb])
  let (table, upsDir) : PVal × PVal := match t with
    | .inUps => (TabPl.at root name version flavor d .inUps, .path (Path.rel [sUps]))
    | .absInside rel => (.path (absP (root ++ rel)), .path (Path.rel [sUps]))
    | .absOutside s => (.path (absP s), .path (Path.rel [sUps]))
    | .interned => (.path (tableName name), .path (Path.rel [mUPS_DB, flavor, name, version, sUps]))
    | .none => (.ph sNone, .null)
  { name := name, version := version, flavor := flavor, dir := d.at root, table := table, upsDir := upsDir, db := db }


/-- a path segment a user can supply: non-empty, no `/`, no `$` -/
def SegOK (s : Str) : Prop := s ≠ [] ∧ 47 ∉ s ∧ 36 ∉ s
def SegsOK (l : List Str) : Prop := ∀ s ∈ l, SegOK s
instance (s : Str) : Decidable (SegOK s) := by unfold SegOK; infer_instance
instance (l : List Str) : Decidable (SegsOK l) := by unfold SegsOK; infer_instance

/-- what the record must say about the product directory -/
def canonDir : DirPl → PVal
  | .inside rel => .path (Path.rel rel)
  | .outside s => .path (absP s)
  | .none => .ph sNone

/-- what the record must say about the table file and the ups directory -/
def canonTab (name version flavor : Str) : TabPl → PVal × PVal
  | .inUps => (.path (tableName name), .path (Path.rel [sUps]))
  | .absInside trel => (.path (Path.rel trel), .path (Path.rel [sUps]))
  | .absOutside s => (.path (absP s), .path (Path.rel [sUps]))
  | .interned => (.path (tableName name), .path (Path.rel [mUPS_DB, flavor, name, version, sUps]))
  | .none => (.ph sNone, .ph sNone)

/-- what the record must contain for a placement: no trace of `root` for anything inside the stack -/
def canonInfo (name version flavor : Str) (d : DirPl) (t : TabPl) : PInfo :=
  { productDir := some (canonDir d), tableFile := some (canonTab name version flavor t).1,
    upsDir := some (canonTab name version flavor t).2 }

/-- Side conditions under which a placement is one of those the property lists. -/
structure PlaceOK (root : List Str) (name version flavor : Str) (d : DirPl) (t : TabPl) : Prop where
  root_ok : SegsOK root
  name_ok : SegOK (name ++ sDotTable)
  name_ok' : SegOK name
  flavor_ok : SegOK flavor
  version_ok : SegOK version
  /-- the directory: inside = a non-empty `$`-free relative part that is not the database itself;
      outside = neither below the stack nor an ancestor of it -/
  dir_ok : match d with
    | .inside rel => SegsOK rel ∧ rel ≠ [] ∧ rel.head? ≠ some sUpsDb
    | .outside s => SegsOK s ∧ root.isPrefixOf s = false ∧ s.isPrefixOf root = false
    | .none => True
  /-- the table file: "in dir/ups" needs a directory; "absolute elsewhere" means not in `dir/ups`, not in the
      database, and (outside the stack) not inside the product directory -/
  tab_ok : match t with
    | .inUps => d ≠ .none
    | .absInside trel => SegsOK trel ∧ trel ≠ [] ∧ trel.head? ≠ some sUpsDb ∧
        (match d with
         | .inside rel => (rel ++ [sUps]).isPrefixOf trel = false
         | .outside _ => True
         | .none => [sNone, sUps].isPrefixOf trel = false)
    | .absOutside s => SegsOK s ∧ root.isPrefixOf s = false ∧ s.isPrefixOf root = false ∧
        (match d with
         | .outside ds => ds.isPrefixOf s = false
         | _ => True)
    | .interned => True
    | .none => True

/-- File-system facts at declaration time: the stack exists, and a table file given by an absolute path inside
the stack exists (`Eups.declare` refuses a table file that does not). -/
def DeclEx (ex : Path → Bool) (root : List Str) (name version flavor : Str) (d : DirPl) (t : TabPl) : Prop :=
  ex (absP root) = true ∧
  (t ≠ .interned → ∀ tp, TabPl.at root name version flavor d t = .path tp → ex tp = true)

/-- File-system facts at the reader's side: the table file is where the property says it must be, and — for a
table file recorded relative to the stack — nothing of the same relative name sits in the product's `ups`
directory (`resolvePaths` probes `ups_dir/<table>` before `root/<table>`). -/
def ReadEx (ex' : Path → Bool) (root' : List Str) (name version flavor : Str) (d : DirPl) (t : TabPl) : Prop :=
  (∀ tp, TabPl.at root' name version flavor d t = .path tp → ex' tp = true) ∧
  (match t with
   | .absInside trel =>
     (match d with
      | .inside rel => ex' (absP (root' ++ rel ++ [sUps] ++ trel)) = false
      | .outside s => ex' (absP (s ++ [sUps] ++ trel)) = false
      | .none => ex' (Path.rel ([sUps] ++ trel)) = false)
   | _ => True)


/-- declare at `root` (no earlier block for the flavor), then read with the stack at `root'`: the directory and
the table file a reader reports -/
def readBack (ex ex' : Path → Bool) (root root' : List Str) (name version flavor : Str) (d : DirPl) (t : TabPl) :
    Except Err (PVal × PVal) :=
  match declarePaths ex (declaredProd root name version flavor d t) none with
  | .error e => .error e
  | .ok (_, pi) =>
    match resolveInfo ex' name version flavor (absP (root' ++ [sUpsDb])) pi with
    | .error e => .error e
    | .ok p => .ok (p.dir, p.table)

end EupsModel.Record
