import EupsModel.Model.Cond
import EupsModel.Model.CondPinned
/-! Model of the table-file reader of `python/eups/table.py`: `Table._rewrite` (comments, archaic lines, legacy
`Group:/Flavor=/Common:/End:` groups and runs of `Flavor=` lines), the block state machine and the command
parser of `Table._read` (argument tokeniser with quote handling, command aliases, arity checks,
`Action.__init__`'s `-f` removal) and branch selection by `Table.actions(flavor, setupType)`.

The model follows the tree *with* our repairs; the places where a repair changed the reader are
selected by a `Variant`, so that the behaviour as pinned stays available for the negation witnesses:
* `d3`  — the condition evaluator (`CondPinned`: short-circuit that leaves tokens unconsumed);
* `d4`  — the block state machine (`readStepPinned`: "is the current block non-empty?" bookkeeping);
* `d20` — the quote pair stripped from the whole argument list (`^"(.*)"$` → `^"([^"]*)"$`);
* `d31` — blanks after the `{` of `} else {` / `} else if (…) {` (missing `\s*` before `$`);
* `d32` — the special case `,\s*"(\s)"` of the argument tokeniser (`commaBlank`; removed by the repair);
* `d33` — quoted strings in the argument tokeniser: `"[^"]+"` (pinned) or `"[^"]*"` (`mapQuoted star`).

Characters: `\n`10 space 32 `"`34 `#`35 `$`36 `(`40 `)`41 `,`44 `-`45 `:`58 `;`59 `=`61 `\`92 `{`123 `}`125. -/
namespace EupsModel.TableParse
open EupsModel.Cond

structure Variant where
  d3 : Bool
  d4 : Bool
  d20 : Bool
  d31 : Bool
  d32 : Bool
  d33 : Bool
  deriving DecidableEq, Repr

def repaired : Variant := ⟨true, true, true, true, true, true⟩
def pinned : Variant := ⟨false, false, false, false, false, false⟩

/-! ## small string functions -/

def dropSpaces (s : Str) : Str := s.dropWhile Str.isSpace
def allSpace (s : Str) : Bool := s.all Str.isSpace

/-- `s` starts with `kw` up to ASCII letter case (`kw` is given in lower case); returns the rest -/
def lowerPrefix (kw s : Str) : Option Str :=
  if Str.lower (s.take kw.length) == kw then some (s.drop kw.length) else none

/-- `^kw\s*=\s*` (IGNORECASE) -/
def kwEq (kw s : Str) : Option Str :=
  match lowerPrefix kw s with
  | some r =>
    match dropSpaces r with
    | 61 :: r2 => some (dropSpaces r2)
    | _ => none
  | none => none

/-- `^kw\s*=\s*(cls+)` (IGNORECASE): the captured group -/
def kwEqCap (kw : Str) (cls : Nat → Bool) (s : Str) : Option Str :=
  match kwEq kw s with
  | some r => match r.takeWhile cls with
    | [] => none
    | cap => some cap
  | none => none

/-- `^kw\s*$` (IGNORECASE), `kw` including its colon -/
def kwLine (kw s : Str) : Bool :=
  match lowerPrefix kw s with
  | some r => allSpace r
  | none => false

/-- split at the last occurrence of `c` -/
def splitLast (c : Nat) : Str → Option (Str × Str)
  | [] => none
  | x :: xs =>
    match splitLast c xs with
    | some (a, b) => some (x :: a, b)
    | none => if x == c then some ([], xs) else none

/-- literal, left-to-right, non-overlapping replacement (`skip` = characters of a match still to be dropped) -/
def replGo (pat rep : Str) : Nat → Str → Str
  | _, [] => []
  | skip + 1, _ :: xs => replGo pat rep skip xs
  | 0, x :: xs =>
    if pat.isPrefixOf (x :: xs) then rep ++ replGo pat rep (pat.length - 1) xs
    else x :: replGo pat rep 0 xs

def replaceAll (pat rep s : Str) : Str := replGo pat rep 0 s

def isInfix (p : Str) : Str → Bool
  | [] => p.isEmpty
  | c :: cs => p.isPrefixOf (c :: cs) || isInfix p cs

/-- `text.split("\n")`-like line splitting (what `readlines()` yields, without the terminators) -/
def splitLines : Str → Str → List Str
  | cur, [] => [cur]
  | cur, c :: cs => if c == 10 then cur :: splitLines [] cs else splitLines (cur ++ [c]) cs

/-! ## `_rewrite` -/

def sFile : Str := [102, 105, 108, 101]
def sTable : Str := [116, 97, 98, 108, 101]
def sProduct : Str := [112, 114, 111, 100, 117, 99, 116]
def sAction : Str := [97, 99, 116, 105, 111, 110]
def sSetup : Str := [115, 101, 116, 117, 112]
def sQualifiers : Str := [113, 117, 97, 108, 105, 102, 105, 101, 114, 115]
def sGroupC : Str := [103, 114, 111, 117, 112, 58]
def sCommonC : Str := [99, 111, 109, 109, 111, 110, 58]
def sEndC : Str := [101, 110, 100, 58]
def sFlavorKw : Str := [102, 108, 97, 118, 111, 114]
def sAny : Str := [97, 110, 121]
/-- `"if ("`, `") {"`, `"}"`, `" || "`, `"FLAVOR == "`, `"FLAVOR =~ .*"` -/
def sIfOpen : Str := [105, 102, 32, 40]
def sIfClose : Str := [41, 32, 123]
def sClose : Str := [125]
def sBarBar : Str := [32, 124, 124, 32]
def sFlavorEq : Str := [70, 76, 65, 86, 79, 82, 32, 61, 61, 32]
def sFlavorAny : Str := [70, 76, 65, 86, 79, 82, 32, 61, 126, 32, 46, 42]

/-- the older synonyms of the eups variables, `(old, new)` in the order the code substitutes them -/
def synonyms : List (Str × Str) :=
  let v (s : String) : Str := Str.ofString s
  [ (v "${PROD_DIR}", v "${PRODUCT_DIR}"), (v "${UPS_PROD_DIR}", v "${PRODUCT_DIR}"),
    (v "${UPS_PROD_FLAVOR}", v "${PRODUCT_FLAVOR}"), (v "${UPS_PROD_NAME}", v "${PRODUCT_NAME}"),
    (v "${UPS_PROD_VERSION}", v "${PRODUCT_VERSION}"), (v "${UPS_DB}", v "${PRODUCTS}"),
    (v "${UPS_UPS_DIR}", v "${UPS_DIR}") ]

inductive NewGroup | no | inFlavors | yes
  deriving DecidableEq, Repr

structure RwState where
  old : Bool := false
  inGroup : Bool := false
  newGroup : NewGroup := .no
  cond : Str := []
  out : List Str := []          -- rewritten lines, in order
  deriving Repr

/-- newline, leading white space and comment removed (the three `re.sub` at the top of the loop) -/
def strip (raw : Str) : Str := ((raw.filter (· != 10)).dropWhile Str.isSpace).takeWhile (· != 35)

/-- `^Qualifiers\s*=\s*"([^"]*)"` (IGNORECASE) -/
def qualLine (l : Str) : Bool :=
  match kwEq sQualifiers l with
  | some (34 :: r) => (r.dropWhile (· != 34)).head? == some 34
  | _ => false

/-- one iteration of the `for line in contents` loop of `_rewrite` -/
def rewriteLine (st : RwState) (raw : Str) : Res RwState :=
  let line := strip raw
  if line.isEmpty then .ok st else
  match kwEqCap sFile isWordCh line with
  | some cap =>
    -- a mismatch raises while formatting the message (`self.versionFile` does not exist): AttributeError
    if Str.lower cap != sTable then .err .attribute else .ok { st with old := true }
  | none =>
  if st.old && (kwEqCap sProduct isWordCh line).isSome then .ok st else
  let line := synonyms.foldl (fun l p => replaceAll p.1 p.2 l) line
  match kwEqCap sAction isTokCh line with
  | some cap => if isInfix sSetup (Str.lower cap) then .ok st else .err .badTable
  | none =>
  if qualLine line then .ok st else
  if kwLine sGroupC line then .ok { st with inGroup := true, cond := [] } else
  let flav := kwEqCap sFlavorKw isTokCh line
  -- Group … Common … End
  let grp : Option RwState :=
    if st.inGroup then
      if kwLine sCommonC line then some { st with out := st.out ++ [sIfOpen ++ st.cond ++ sIfClose] }
      else if kwLine sEndC line then some { st with inGroup := false, out := st.out ++ [sClose] }
      else match flav with
        | some f =>
          let c := if st.cond.isEmpty then st.cond else st.cond ++ sBarBar
          some { st with cond := c ++ (if Str.lower f == sAny then sFlavorAny else sFlavorEq ++ f) }
        | none => none
    else none
  match grp with
  | some st' => .ok st'
  | none =>
  -- runs of Flavor= lines
  match st.newGroup, flav with
  | .inFlavors, some f => .ok { st with cond := st.cond ++ sBarBar ++ sFlavorEq ++ f }
  | .inFlavors, none =>
    .ok { st with newGroup := .yes, out := st.out ++ [sIfOpen ++ st.cond ++ sIfClose, line] }
  | ng, some f =>
    .ok { st with newGroup := .inFlavors, cond := sFlavorEq ++ f,
                  out := if ng == .yes then st.out ++ [sClose] else st.out }
  | _, none => .ok { st with out := st.out ++ [line] }

def rewriteLines : RwState → List Str → Res RwState
  | st, [] => .ok st
  | st, l :: ls => (rewriteLine st l).bind fun st' => rewriteLines st' ls

/-- `Table._rewrite` (line numbers dropped) -/
def rewrite (text : Str) : Res (List Str) :=
  (rewriteLines {} (splitLines [] text)).bind fun st =>
    .ok (if st.newGroup != .no then st.out ++ [sClose] else st.out)

/-! ## classification of a rewritten line -/

/-- what the block regex of `_read` found: `if (c) {`, `} else if (c) {`, `} else {` (with `exact` = the
keyword was spelled `else` in lower case, which is what the pinned code tests), `}` -/
inductive BlockLine | ifOpen (c : Str) | elseIf (c : Str) | elseOpen (exact : Bool) | close
  deriving DecidableEq, Repr

def sIf : Str := [105, 102]
def sElse : Str := [101, 108, 115, 101]

/-- `\s*{` followed by end of line (`d31`: by blanks and end of line) -/
def braceEnd (v : Variant) (s : Str) : Bool :=
  match dropSpaces s with
  | 123 :: t => if v.d31 then allSpace t else t.isEmpty
  | _ => false

/-- `if\s*\((.*)\)` at the head of `s`, then `after` on the rest: the condition text -/
def ifCond (s : Str) (after : Str → Bool) : Option Str :=
  match lowerPrefix sIf s with
  | some r =>
    match dropSpaces r with
    | 40 :: r2 =>
      match splitLast 41 r2 with
      | some (c, suf) => if after suf then some c else none
      | none => none
    | _ => none
  | none => none

/-- `^(?:if\s*\((.*)\)\s*{\s*|}\s*(?:(else(?:\s*if\s*\((.*)\))?)\s*{)?)$`, IGNORECASE -/
def blockLine (v : Variant) (line : Str) : Option BlockLine :=
  match ifCond line (fun suf => match dropSpaces suf with | 123 :: t => allSpace t | _ => false) with
  | some c => some (.ifOpen c)
  | none =>
    match line with
    | 125 :: r =>
      let r' := dropSpaces r
      if r'.isEmpty then some .close else
      match lowerPrefix sElse r' with
      | some e =>
        match ifCond (dropSpaces e) (braceEnd v) with
        | some c => some (.elseIf c)
        | none => if braceEnd v e then some (.elseOpen (r'.take 4 == sElse)) else none
      | none => none
    | _ => none

/-! ## commands -/

/-- `implicit` = `{"optional": True, "silent": True}`, the extra of the action appended for the default product -/
inductive Extra | none | optional (b : Bool) | append (b : Bool) | implicit
  deriving DecidableEq, Repr

structure Action where
  cmd : Str
  args : List Str
  extra : Extra
  deriving DecidableEq, Repr

/-- `^(\w+)\s*\((.*)\)\s*;?\s*$`: command word and argument text -/
def cmdLine (line : Str) : Option (Str × Str) :=
  match line.takeWhile isWordCh with
  | [] => none
  | name =>
    match dropSpaces (line.dropWhile isWordCh) with
    | 40 :: r =>
      match splitLast 41 r with
      | some (args, suf) =>
        let s1 := dropSpaces suf
        let ok := match s1 with
          | [] => true
          | 59 :: t => allSpace t
          | _ => false
        if ok then some (name, args) else none
      | none => none
    | _ => none

/-- `re.sub(r'^"(.*)"$', r'\1', s)`; with `strict` the inside must be free of quotes (`[^"]*`) -/
def stripOuter (strict : Bool) (s : Str) : Str :=
  match s with
  | 34 :: r =>
    if r.getLast? == some 34 then
      if strict && r.dropLast.contains 34 then s else r.dropLast
    else s
  | _ => s

/-- `re.sub(r',\s*"(\s)"', r'\1"\x01"', s)`; `skip` = characters of a match still to be dropped -/
def commaBlank : Nat → Str → Str
  | _, [] => []
  | skip + 1, _ :: cs => commaBlank skip cs
  | 0, c :: cs =>
    if c == 44 then
      match cs.dropWhile Str.isSpace with
      | 34 :: w :: 34 :: _ =>
        if Str.isSpace w then w :: 34 :: 1 :: 34 :: commaBlank ((cs.takeWhile Str.isSpace).length + 3) cs
        else c :: commaBlank 0 cs
      | _ => c :: commaBlank 0 cs
    else c :: commaBlank 0 cs

/-- `re.sub(r'("[^"]*")', lambda m: m.group(0) with f applied to every character, s)`; with `star = false` the
pattern is `"[^"]+"` as pinned (an empty pair of quotes is not a match: its second quote may open one).
State `some run`: an opening quote (not yet emitted) followed by the quote-free characters `run`. -/
def mapQuoted (star : Bool) (f : Nat → Nat) : Option Str → Str → Str
  | none, [] => []
  | some run, [] => 34 :: run
  | none, c :: cs => if c == 34 then mapQuoted star f (some []) cs else c :: mapQuoted star f none cs
  | some run, c :: cs =>
    if c == 34 then
      if star || !run.isEmpty then 34 :: run.map f ++ 34 :: mapQuoted star f none cs
      else 34 :: mapQuoted star f (some []) cs
    else mapQuoted star f (some (run ++ [c])) cs

/-- `[s for s in re.split("[, ]", args) if s]` -/
def splitArgs : Str → Str → List Str
  | cur, [] => if cur.isEmpty then [] else [cur]
  | cur, c :: cs =>
    if c == 44 || c == 32 then (if cur.isEmpty then splitArgs [] cs else cur :: splitArgs [] cs)
    else splitArgs (cur ++ [c]) cs

/-- `\x01`, `\x02`, `\x03` back to blank, quote, comma -/
def unprotect (c : Nat) : Nat := if c == 1 then 32 else if c == 2 then 34 else if c == 3 then 44 else c

/-- the argument tokeniser of `_read` -/
def parseArgs (v : Variant) (text : Str) : List Str :=
  let a := stripOuter v.d20 text
  let a := replaceAll [92, 34] [2] a
  let a := if v.d32 then a else commaBlank 0 a
  let a := mapQuoted v.d33 (fun c => if c == 32 then 1 else c) none a
  let a := mapQuoted v.d33 (fun c => if c == 44 then 3 else c) none a
  (splitArgs [] a).map fun s => (stripOuter false s).map unprotect

inductive Cmd
  | addAlias | declareOptions | envAppend | envPrepend | envSet | envUnset | doPrint | prodDir | setupEnv
  | setupOptional | setupRequired | sourceRequired | unsetupRequired | unsetupOptional
  deriving DecidableEq, Repr

/-- the constants of class `Action` -/
def Cmd.name : Cmd → Str
  | .addAlias => Str.ofString "addAlias" | .declareOptions => Str.ofString "declareOptions"
  | .envAppend => Str.ofString "envAppend" | .envPrepend => Str.ofString "envPrepend"
  | .envSet => Str.ofString "envSet" | .envUnset => Str.ofString "envUnset" | .doPrint => Str.ofString "print"
  | .prodDir => Str.ofString "prodDir" | .setupEnv => Str.ofString "setupEnv"
  | .setupOptional => Str.ofString "setupOptional" | .setupRequired => Str.ofString "setupRequired"
  | .sourceRequired => Str.ofString "sourceRequired" | .unsetupRequired => Str.ofString "unsetupRequired"
  | .unsetupOptional => Str.ofString "unsetupOptional"

def allCmds : List Cmd :=
  [.addAlias, .declareOptions, .envAppend, .envPrepend, .envSet, .envUnset, .doPrint, .prodDir, .setupEnv,
   .setupOptional, .setupRequired, .sourceRequired, .unsetupRequired, .unsetupOptional]

/-- the dictionary of `_read` that maps a lower-cased command word to an `Action` constant -/
def cmdTable : List (Str × Cmd) :=
  let v (s : String) : Str := Str.ofString s
  [ (v "addalias", .addAlias), (v "declareoptions", .declareOptions), (v "envappend", .envAppend),
    (v "envprepend", .envPrepend), (v "envset", .envSet), (v "envunset", .envUnset),
    (v "pathappend", .envAppend), (v "pathprepend", .envPrepend), (v "pathremove", .envUnset),
    (v "pathset", .envSet), (v "print", .doPrint), (v "proddir", .prodDir), (v "setupenv", .setupEnv),
    (v "setenv", .envSet), (v "unsetenv", .envUnset), (v "setuprequired", .setupRequired),
    (v "setupoptional", .setupOptional), (v "sourcerequired", .sourceRequired),
    (v "unsetuprequired", .unsetupRequired), (v "unsetupoptional", .unsetupOptional) ]

def joinSp : List Str → Str
  | [] => []
  | [x] => x
  | x :: y :: r => x ++ 32 :: joinSp (y :: r)

def sDashF : Str := [45, 102]
def sProductDir : Str := Str.ofString "PRODUCT_DIR"

/-- `Action.__init__`: the first `-f` and the argument after it are removed -/
def dropF : List Str → List Str
  | [] => []
  | a :: rest => if a == sDashF then rest.drop 1 else a :: dropF rest

/-- what one line that is not a block line contributes -/
inductive LineRes | act (a : Action) | skip | bad | unmodelled
  deriving DecidableEq, Repr

/-- the `if cmd == …` cascade of `_read` followed by `Action(...)`.  `pdir` = `utils.dirEnvNameFor(topProduct.name)`
when the table was read for a product. -/
def normalise (pdir : Option Str) (cmd : Cmd) (args : List Str) : LineRes :=
  let mk (c : Cmd) (a : List Str) (e : Extra) : LineRes := .act ⟨c.name, dropF a, e⟩
  match cmd with
  | .prodDir | .setupEnv | .addAlias | .declareOptions | .doPrint => mk cmd args .none
  | .unsetupRequired => mk .unsetupRequired args (.optional false)
  | .unsetupOptional => mk .unsetupRequired args (.optional true)
  | .setupRequired => mk .setupRequired args (.optional false)
  | .setupOptional => mk .setupRequired args (.optional true)
  | .envAppend | .envPrepend =>
    if args.length < 2 || args.length > 3 then .bad else mk .envPrepend args (.append (cmd == .envAppend))
  | .envSet =>
    match args with
    | a :: b :: rest => mk .envSet [a, joinSp (b :: rest)] .none
    | _ => .bad
  | .envUnset =>
    match args with
    | [a] =>
      match pdir with
      | some pv => if a == sProductDir || a == pv then mk .envUnset [pv] .none else .skip
      | none => if a == sProductDir then .unmodelled else .skip     -- the argument becomes `None`
    | _ => .bad
  | .sourceRequired => .skip

/-- a rewritten line that the block regex did not match -/
def commandLine (v : Variant) (pdir : Option Str) (line : Str) : LineRes :=
  match cmdLine line with
  | some (name, argText) =>
    match cmdTable.lookup (Str.lower name) with
    | some c => normalise pdir c (parseArgs v argText)
    | none => .skip                                   -- KeyError: "Unexpected line"
  | none =>
    -- `cmd = line; args = []`: only a line that *is* one of the constants goes anywhere
    match allCmds.find? (fun c => c.name == line) with
    | some c => normalise pdir c []
    | none => .skip

/-! ## the block state machine -/

/-- `_actions` holds Python lists `[logical1, block1, logical2, block2, …, elseBlock]` -/
inductive Item | cond (c : Str) | blk (as : List Action)
  deriving DecidableEq, Repr

abbrev Chain := List Item

structure RdState where
  chain : Option Chain := none        -- repaired: the chain being read
  sawElse : Bool := false             -- repaired: its `} else {` has been seen
  logical : Str := sTrue              -- pinned
  ifBlock : List Action := []         -- pinned
  lb : Chain := []                    -- pinned: `logicalBlocks`
  block : List Action := []
  acts : List Chain := []             -- `self._actions`
  deriving Repr

def unconditional (block : List Action) : Chain := [.cond sTrue, .blk block, .blk []]

/-- a line matched by the block regex, in the tree with the repair of D4 -/
def blockStep (st : RdState) (bl : BlockLine) : RdState :=
  let st : RdState :=
    match st.chain, bl with
    | none, _ => if st.block.isEmpty then st else { st with acts := st.acts ++ [unconditional st.block] }
    | some ch, .elseIf c => { st with chain := some (ch ++ [.blk st.block, .cond c]) }
    | some ch, .elseOpen _ => { st with chain := some (ch ++ [.blk st.block]), sawElse := true }
    | some ch, _ =>
      { st with chain := none,
                acts := st.acts ++ [ch ++ (if st.sawElse then [.blk st.block] else [.blk st.block, .blk []])] }
  let st : RdState :=
    match bl with
    | .ifOpen c => { st with chain := some [.cond c], sawElse := false }
    | _ => st
  { st with block := [] }

/-- the same line in the tree as pinned -/
def blockStepPinned (st : RdState) (bl : BlockLine) : RdState :=
  let st : RdState :=
    if st.block.isEmpty then st else
    let st : RdState :=
      match bl with
      | .elseOpen true => { st with ifBlock := st.block }
      | .elseIf c => { st with lb := st.lb ++ [.cond st.logical, .blk st.block], logical := c }
      | _ =>
        let (ifB, elseB) := if st.ifBlock.isEmpty then (st.block, []) else (st.ifBlock, st.block)
        let lb := st.lb ++ [.cond st.logical, .blk ifB, .blk elseB]
        match bl with
        | .ifOpen _ => { st with acts := st.acts ++ [lb], ifBlock := [], lb := [] }
        | _ => { st with ifBlock := ifB, lb := lb }
    { st with block := [] }
  match bl with
  | .ifOpen c => { st with logical := c }
  | .close =>
    if st.lb.isEmpty then { st with logical := sTrue }
    else { st with logical := sTrue, acts := st.acts ++ [st.lb], ifBlock := [], lb := [] }
  | _ => st

/-- what a rewritten line is to the reader: a line of the block structure, a command, or nothing -/
inductive Line | blk (b : BlockLine) | act (a : Action) | skip
  deriving DecidableEq, Repr

/-- the two patterns of `_read` tried in order, and the command cascade -/
def classify (v : Variant) (pdir : Option Str) (line : Str) : Res Line :=
  match blockLine v line with
  | some bl => .ok (.blk bl)
  | none =>
    match commandLine v pdir line with
    | .act a => .ok (.act a)
    | .skip => .ok .skip
    | .bad => .err .badTable
    | .unmodelled => .err .unmodelled

/-- the effect of a classified line on the reader's state -/
def stepL (v : Variant) (st : RdState) : Line → RdState
  | .blk bl => if v.d4 then blockStep st bl else blockStepPinned st bl
  | .act a => { st with block := st.block ++ [a] }
  | .skip => st

def runL (v : Variant) (st : RdState) (ls : List Line) : RdState := ls.foldl (stepL v) st

/-- all lines classified (stops at the first line that raises) -/
def classifyAll (v : Variant) (pdir : Option Str) : List Str → Res (List Line)
  | [] => .ok []
  | l :: ls => (classify v pdir l).bind fun c => (classifyAll v pdir ls).bind fun cs => .ok (c :: cs)

def readLine (v : Variant) (pdir : Option Str) (st : RdState) (line : Str) : Res RdState :=
  (classify v pdir line).bind fun l => .ok (stepL v st l)

def readLines (v : Variant) (pdir : Option Str) : RdState → List Str → Res RdState
  | st, [] => .ok st
  | st, l :: ls => (readLine v pdir st l).bind fun st' => readLines v pdir st' ls

/-- what is left when the file ends -/
def finish (v : Variant) (st : RdState) : List Chain :=
  if v.d4 then
    match st.chain with
    | some ch => st.acts ++ [ch ++ (if st.sawElse then [.blk st.block] else [.blk st.block, .blk []])]
    | none => if st.block.isEmpty then st.acts else st.acts ++ [unconditional st.block]
  else
    let acts := if st.lb.isEmpty then st.acts else st.acts ++ [st.lb]
    if st.block.isEmpty then acts else acts ++ [[.cond st.logical, .blk st.block, .blk []]]

/-- `Table._read` (without the default product): the value of `self._actions` -/
def parse (v : Variant) (pdir : Option Str) (text : Str) : Res (List Chain) :=
  (rewrite text).bind fun lines => (readLines v pdir {} lines).bind fun st => .ok (finish v st)

/-! ## `Table.actions` -/

/-- the `while LBB` loop for one entry of `_actions` -/
def select (v : Variant) (env : Env) : Chain → Res (List Action)
  | [] => .ok []
  | [_] => .err .unmodelled                                  -- `LBB[1]`: IndexError; no reader produces it
  | .cond c :: b :: rest =>
    (if v.d3 then evalCond env (fuelFor c) c else CondPinned.evalCond env (fuelFor c) c).bind fun t =>
      if t then
        match b with
        | .blk as => .ok as
        | .cond _ => .err .unmodelled
      else
        match rest with
        | [.blk as] => .ok as
        | [.cond _] => .err .unmodelled
        | _ => select v env rest
  | .blk _ :: _ :: _ => .err .typeErr                        -- `VersionParser(<list>)`

def actions (v : Variant) (env : Env) : List Chain → Res (List Action)
  | [] => .ok []
  | ch :: rest => (select v env ch).bind fun a => (actions v env rest).bind fun b => .ok (a ++ b)

/-- `Table(file, topProduct).actions(flavor, setupType)` for a file with contents `text` -/
def tableActions (v : Variant) (pdir : Option Str) (env : Env) (text : Str) : Res (List Action) :=
  (parse v pdir text).bind fun chains => actions v env chains

/-! ## the default product

`_read` ends by appending `('True', [Action("implicit", "setupRequired", args, {"optional": True, "silent": True})], [])`
for `hooks.config.Eups.defaultProduct` (usually `toolchain`) unless `addDefaultProduct is False` or no name is
configured; `args` = the name, the version if one is configured, `--tag` and the tag if one is. -/

structure DefaultProduct where
  name : Str
  version : Option Str
  tag : Option Str
  deriving DecidableEq, Repr

def sDashDashTag : Str := Str.ofString "--tag"

def implicitAction (d : DefaultProduct) : Action :=
  ⟨Cmd.setupRequired.name,
   dropF ([d.name] ++ d.version.toList ++ (match d.tag with | some t => [sDashDashTag, t] | none => [])), .implicit⟩

/-- `Table._read` with the default product (`none`: switched off) -/
def parseD (v : Variant) (pdir : Option Str) (dflt : Option DefaultProduct) (text : Str) : Res (List Chain) :=
  (parse v pdir text).bind fun chains =>
    .ok (match dflt with
      | some d => chains ++ [unconditional [implicitAction d]]
      | none => chains)

def tableActionsD (v : Variant) (pdir : Option Str) (dflt : Option DefaultProduct) (env : Env) (text : Str) :
    Res (List Action) :=
  (parseD v pdir dflt text).bind fun chains => actions v env chains

/-! ## `Table.getDeclareOptions`

`eups declare` reads `declareOptions(k = v, …)` commands with a second copy of the branch-selection loop. -/

/-- `s.split(c)` -/
def splitOn (c : Nat) : Str → Str → List Str
  | cur, [] => [cur]
  | cur, x :: xs => if x == c then cur :: splitOn c [] xs else splitOn c (cur ++ [x]) xs

def rstrip (s : Str) : Str := (s.reverse.dropWhile Str.isSpace).reverse

/-- white space next to a removed `=`: after it for every piece but the first, before it for every piece but the last -/
def trimPieces : Bool → List Str → List Str
  | _, [] => []
  | first, [p] => [if first then p else dropSpaces p]
  | first, p :: q :: r => rstrip (if first then p else dropSpaces p) :: trimPieces false (q :: r)

/-- `re.split(r"\s*=\s*", opt)` -/
def splitEq (opt : Str) : List Str := trimPieces true (splitOn 61 [] opt)

/-- `for i in range(0, len(args) - 1, 2): k, v = args[i], args[i + 1]` -/
def pairUp : List Str → List (Str × Str)
  | k :: v :: r => (k, v) :: pairUp r
  | _ => []

/-- a Python `dict` with string keys, in insertion order -/
abbrev Dict := List (Str × Str)

/-- `d[k] = v` -/
def dictSet (d : Dict) (k v : Str) : Dict :=
  if d.any (·.1 == k) then d.map (fun p => if p.1 == k then (k, v) else p) else d ++ [(k, v)]

/-- the words of a `declareOptions` command: every argument split at `=`, empty pieces dropped -/
def optWords (args : List Str) : List Str := (args.flatMap splitEq).filter (fun w => !w.isEmpty)

/-- `for a in block: if a.cmd == Action.declareOptions: …` -/
def blockOpts (opts : Dict) (as : List Action) : Dict :=
  as.foldl (fun o a =>
    if a.cmd == Cmd.declareOptions.name then (pairUp (optWords a.args)).foldl (fun o p => dictSet o p.1 p.2) o
    else o) opts

/-- the `while LBB` loop of `getDeclareOptions` for one entry of `_actions`: the block whose options are read -/
def selectD (v : Variant) (env : Env) : Chain → Res (List Action)
  | [] => .ok []
  | [_] => .err .unmodelled
  | .cond c :: b :: rest =>
    (if v.d3 then evalCond env (fuelFor c) c else CondPinned.evalCond env (fuelFor c) c).bind fun t =>
      if t then
        match b with
        | .blk as => .ok as                                   -- `block = ifBlock; LBB = None`
        | .cond _ => .err .unmodelled
      else
        match rest with
        | [.blk as] => .ok as                                 -- `block = elseBlock[0]; LBB = None`
        | [.cond _] => .err .unmodelled
        | _ => selectD v env rest                             -- `LBB = elseBlock; continue`
  | .blk _ :: _ :: _ => .err .typeErr

/-- `for LBB in self._actions` of `getDeclareOptions` (with the repair of D111) -/
def declOptsGo (v : Variant) (env : Env) : Dict → List Chain → Res Dict
  | d, [] => .ok d
  | d, ch :: rest => (selectD v env ch).bind fun as => declOptsGo v env (blockOpts d as) rest

/-- the same loop as pinned: `if len(elseBlock) > 13: … pdb.set_trace()` at the head of the `while` body stops in
the debugger (`none`) on a chain of more than seven branches (only the first pass over a chain can see one) -/
def declOptsGoPinned (v : Variant) (env : Env) : Dict → List Chain → Res (Option Dict)
  | d, [] => .ok (some d)
  | d, ch :: rest =>
    if ch.length > 15 then .ok none
    else (selectD v env ch).bind fun as => declOptsGoPinned v env (blockOpts d as) rest

/-- `Table(file, topProduct).getDeclareOptions(flavor, setupType)` for a file with contents `text` -/
def tableDeclOpts (v : Variant) (pdir : Option Str) (env : Env) (text : Str) : Res Dict :=
  (parse v pdir text).bind fun chains => declOptsGo v env [] chains

def tableDeclOptsPinned (v : Variant) (pdir : Option Str) (env : Env) (text : Str) : Res (Option Dict) :=
  (parse v pdir text).bind fun chains => declOptsGoPinned v env [] chains

end EupsModel.TableParse
