/-!
# File-system effects of the mutating database commands (C08)

Mirrors, in `python/eups`:

* `db/VersionFile.py` `write` (with the D10 repair: temporary file beside the record, flush, fsync, rename;
  the pinned in-place writer is kept as `atomic := false`), `addFlavor`, `removeFlavor`
* `db/ChainFile.py` `write`, `setVersion`, `removeVersion`
* `db/Database.py` `declare` (l.424-472), `undeclare` (l.474-518), `assignTag` (l.568-627), `unassignTag`
  (l.630-681), `findTags`
* `Eups.py` `declare` (the decision to redeclare, the automatic `current` tag, "delete all old occurrences of
  this tag … and set it in the proper place", l.2538-2702), `undeclare`, `unassignTag`

Products, versions, flavors and tags are small numbers.  One stack, all of it writable, no user tags; the two
flavors are unrelated (neither is a fallback of the other).  A record's *content* is abstracted to what a reader
uses plus what decides the number of `print` calls (the `modified` stamps).  A file holds `empty` (just
created/truncated), `partial` (some but not all chunks) or `complete c`.
-/
namespace EupsModel.FsEff

abbrev Id := Nat

/-- one flavor block of a version file -/
structure VEntry where
  flavor : Id
  modified : Bool       -- carries MODIFIER/MODIFIED lines (redeclared)
  deriving DecidableEq, Repr

/-- one flavor block of a chain file -/
structure CEntry where
  flavor : Id
  version : Id
  modified : Bool
  deriving DecidableEq, Repr

inductive Content where
  | ver (es : List VEntry)
  | chain (es : List CEntry)
  deriving DecidableEq, Repr

inductive FileC where
  | empty
  | part
  | complete (c : Content)
  deriving DecidableEq, Repr

/-- a database record: `<p>/<v>.version` or `<p>/<t>.chain` -/
inductive RPath where
  | vfile (p v : Id)
  | cfile (p t : Id)
  deriving DecidableEq, Repr

def RPath.prod : RPath → Id
  | .vfile p _ => p
  | .cfile p _ => p

/-- a file in the database: a record, the temporary file the running command writes beside it, or a temporary
file left behind by an earlier, killed command (its name matches neither record pattern) -/
inductive FPath where
  | main (r : RPath)
  | tmp (r : RPath)
  | stale (r : RPath) (i : Nat)
  deriving DecidableEq, Repr

def FPath.prod : FPath → Id
  | .main r => r.prod
  | .tmp r => r.prod
  | .stale r _ => r.prod

structure Fs where
  dirs : List Id                      -- product directories
  files : List (FPath × FileC)        -- in directory-listing order
  deriving DecidableEq, Repr

def Fs.get (fs : Fs) (f : FPath) : Option FileC :=
  match fs.files.find? (·.1 = f) with
  | some x => some x.2
  | none => none

def setFile : List (FPath × FileC) → FPath → FileC → List (FPath × FileC)
  | [], f, c => [(f, c)]
  | (g, d) :: r, f, c => if g = f then (f, c) :: r else (g, d) :: setFile r f c

def Fs.set (fs : Fs) (f : FPath) (c : FileC) : Fs := { fs with files := setFile fs.files f c }
def delFile : List (FPath × FileC) → FPath → List (FPath × FileC)
  | [], _ => []
  | (g, d) :: r, f => if g = f then delFile r f else (g, d) :: delFile r f

def Fs.del (fs : Fs) (f : FPath) : Fs := { fs with files := delFile fs.files f }

inductive Eff where
  | mkdir (p : Id)
  | rmdir (p : Id)
  | creat (f : FPath)
  | trunc (f : FPath)
  | write (f : FPath) (c : Content) (last : Bool)   -- one `print`; `last` = the file is complete after it
  | close (f : FPath)
  | rename (a b : FPath)
  | unlink (f : FPath)
  deriving DecidableEq, Repr

def applyEff (fs : Fs) : Eff → Fs
  | .mkdir p => if p ∈ fs.dirs then fs else { fs with dirs := fs.dirs ++ [p] }
  | .rmdir p => if fs.files.any (·.1.prod = p) then fs else { fs with dirs := fs.dirs.filter (· ≠ p) }
  | .creat f => fs.set f .empty
  | .trunc f => fs.set f .empty
  | .write f c last => fs.set f (if last then .complete c else .part)
  | .close _ => fs
  | .rename a b => match fs.get a with
    | some c => (fs.del a).set b c
    | none => fs
  | .unlink f => fs.del f

def applyAll (fs : Fs) (es : List Eff) : Fs := es.foldl applyEff fs

/-- number of `print` calls of the writer -/
def chunks : Content → Nat
  | .ver es => 2 + (es.map fun e => if e.modified then 8 else 6).sum
  | .chain es => 1 + (es.map fun e => if e.modified then 6 else 4).sum

def writes (f : FPath) (c : Content) : Nat → List Eff
  | 0 => []
  | 1 => [.write f c true]
  | n + 2 => .write f c false :: writes f c (n + 1)

def Content.isEmpty : Content → Bool
  | .ver es => es.isEmpty
  | .chain es => es.isEmpty

/-! ## Record-level steps

The commands are first described as a list of *steps* on whole records — what `Database` and `Eups` decide —
and each step is then expanded into the file-system effects of the writer that carries it out. -/

inductive Step where
  | mkdir (p : Id)
  | rmdir (p : Id)
  | put (r : RPath) (c : Content)      -- `VersionFile.write` / `ChainFile.write` with at least one flavor
  | remove (r : RPath)                 -- `os.remove(file)`
  deriving DecidableEq, Repr

def applyStep (fs : Fs) : Step → Fs
  | .mkdir p => applyEff fs (.mkdir p)
  | .rmdir p => applyEff fs (.rmdir p)
  | .put r c => fs.set (.main r) (.complete c)
  | .remove r => fs.del (.main r)

def applySteps (fs : Fs) (ss : List Step) : Fs := ss.foldl applyStep fs

/-- the effects that carry out one step started in state `fs`.  `atomic` = the repaired writers (temporary file
beside the record, then rename); `atomic = false` = the pinned writers (`open(file, "w")` in place). -/
def expand (atomic : Bool) (fs : Fs) : Step → List Eff
  | .mkdir p => [.mkdir p]
  | .rmdir p => [.rmdir p]
  | .remove r => [.unlink (.main r)]
  | .put r c =>
    if atomic then
      [.creat (.tmp r)] ++ writes (.tmp r) c (chunks c) ++ [.close (.tmp r), .rename (.tmp r) (.main r)]
    else
      [if (fs.get (.main r)).isSome then .trunc (.main r) else .creat (.main r)] ++ writes (.main r) c (chunks c) ++
        [.close (.main r)]

def expandAll (atomic : Bool) : Fs → List Step → List Eff
  | _, [] => []
  | fs, s :: ss => expand atomic fs s ++ expandAll atomic (applyStep fs s) ss

/-- `VersionFile.write` / `ChainFile.write` of content `c` to record `r`: remove the file when no flavor is left -/
def writeRec (fs : Fs) (r : RPath) (c : Content) : List Step :=
  if c.isEmpty then (if (fs.get (.main r)).isSome then [.remove r] else [])
  else [.put r c]

/-- what `VersionFile(file)` yields: the blocks of a complete file; nothing for a missing or empty file.
(A partially written file is read as far as it goes; the commands are only started in states without one.) -/
def vread (fs : Fs) (p v : Id) : List VEntry :=
  match fs.get (.main (.vfile p v)) with
  | some (.complete (.ver es)) => es
  | _ => []

def cread (fs : Fs) (p t : Id) : List CEntry :=
  match fs.get (.main (.cfile p t)) with
  | some (.complete (.chain es)) => es
  | _ => []

def hasFlavorV (es : List VEntry) (f : Id) : Bool := es.any (·.flavor = f)
def chainVersion (es : List CEntry) (f : Id) : Option Id :=
  match es.find? (·.flavor = f) with
  | some e => some e.version
  | none => none

/-- `addFlavor`: modify the block in place, or append a new one -/
def addFlavorV : List VEntry → Id → List VEntry
  | [], f => [{ flavor := f, modified := false }]
  | e :: r, f => if e.flavor = f then { flavor := f, modified := true } :: r else e :: addFlavorV r f

/-- `setVersion` -/
def setVersionC : List CEntry → Id → Id → List CEntry
  | [], f, v => [{ flavor := f, version := v, modified := false }]
  | e :: r, f, v => if e.flavor = f then { flavor := f, version := v, modified := true } :: r else e :: setVersionC r f v

/-- `removeFlavor` / `removeVersion`: drop the block of flavor `f` -/
def dropFlavorV : List VEntry → Id → List VEntry
  | [], _ => []
  | e :: r, f => if e.flavor = f then dropFlavorV r f else e :: dropFlavorV r f

def dropFlavorC : List CEntry → Id → List CEntry
  | [], _ => []
  | e :: r, f => if e.flavor = f then dropFlavorC r f else e :: dropFlavorC r f

structure Cfg where
  atomic : Bool := true

/-- `Database.assignTag(tag, p, v, f)`; nothing happens (ProductNotFound) unless `(p, v, f)` is declared -/
def dbAssignTag (fs : Fs) (t p v f : Id) : List Step :=
  if !hasFlavorV (vread fs p v) f then [] else
  writeRec fs (.cfile p t) (.chain (setVersionC (cread fs p t) f v))

/-- `Database.unassignTag(tag, p, f)` -/
def dbUnassignTag (fs : Fs) (t p f : Id) : List Step :=
  let es := cread fs p t
  if (chainVersion es f).isNone then [] else
  writeRec fs (.cfile p t) (.chain (dropFlavorC es f))

/-- `Database.declare(product)` with `product.tags = tags` -/
def dbDeclare (fs : Fs) (p v f : Id) (tag : Option Id) : List Step :=
  let e0 : List Step := if p ∈ fs.dirs then [] else [.mkdir p]
  let fs0 := applySteps fs e0
  let e1 := writeRec fs0 (.vfile p v) (.ver (addFlavorV (vread fs0 p v) f))
  let fs1 := applySteps fs0 e1
  let e2 := match tag with
    | some t => dbAssignTag fs1 t p v f
    | none => []
  e0 ++ e1 ++ e2

/-- the tag a directory entry assigns to `(p, v, f)`, if it is a chain file of `p` doing so -/
def tagOf (p v f : Id) : FPath × FileC → Option Id
  | (.main (.cfile p' t), .complete (.chain es)) => if p' = p && chainVersion es f = some v then some t else none
  | _ => none

/-- the tags of `(p, v, f)` in directory-listing order (`Database.findTags`) -/
def findTags (fs : Fs) (p v f : Id) : List Id := fs.files.filterMap (tagOf p v f)

def unassignAll (p f : Id) : Fs → List Id → List Step
  | _, [] => []
  | fs, t :: ts =>
    let e := dbUnassignTag fs t p f
    e ++ unassignAll p f (applySteps fs e) ts

/-- `Database.undeclare(product)` -/
def dbUndeclare (fs : Fs) (p v f : Id) : List Step :=
  if (fs.get (.main (.vfile p v))).isNone then [] else
  let es := vread fs p v
  let e1 := if hasFlavorV es f then unassignAll p f fs (findTags fs p v f) else []
  let fs1 := applySteps fs e1
  let e2 := if hasFlavorV es f then writeRec fs1 (.vfile p v) (.ver (dropFlavorV es f)) else []
  let fs2 := applySteps fs1 e2
  let e3 : List Step := if (fs2.get (.main (.vfile p v))).isNone then [.rmdir p] else []
  e1 ++ e2 ++ e3

/-- the versions of `p` declared for flavor `f`, from the files -/
def versionsOf (fs : Fs) (p f : Id) : List Id :=
  fs.files.filterMap fun (path, c) =>
    match path, c with
    | .main (.vfile p' v), .complete (.ver es) => if p' = p && hasFlavorV es f then some v else none
    | _, _ => none

def tagCurrent : Id := 0

inductive Cmd where
  /-- `Eups(flavor=f, force=force).declare(p, v, dir, tag=tag)` (dir and table file as always for `(p, v, f)`) -/
  | declare (p v f : Id) (tag : Option Id) (force : Bool)
  /-- `Eups(flavor=f).undeclare(p, v, tag=t)` (`v` may be omitted) -/
  | untag (t p f : Id) (v : Option Id)
  /-- `Eups(flavor=f).undeclare(p, v)` -/
  | undeclare (p v f : Id)
  /-- `Eups(flavor=f).undeclare(p)`: the version is omitted; carried out when exactly one version of `p` is
  declared for the flavor, refused otherwise (`ProductNotFound` / "please choose one and try again") -/
  | undeclareAny (p f : Id)
  deriving DecidableEq, Repr

/-- the version `Eups.undeclare(p)` picks: the only one declared for flavor `f` -/
def soleVersion (fs : Fs) (p f : Id) : Option Id :=
  match versionsOf fs p f with
  | [v] => some v
  | _ => none

/-- the version of `p` that carries tag `t` for flavor `f` and is declared (what `findProducts(p, None, [t])` /
`findProduct(p, Tag(t))` find) -/
def taggedVersion (fs : Fs) (t p f : Id) : Option Id :=
  match chainVersion (cread fs p t) f with
  | some v => if hasFlavorV (vread fs p v) f then some v else none
  | none => none

/-- the tag a `declare` assigns: the one asked for, or `current` for the first version of a product -/
def declareTag (fs : Fs) (p f : Id) (tag : Option Id) : Option Id :=
  match tag with
  | some t => some t
  | none => if (versionsOf fs p f).isEmpty then some tagCurrent else none

/-- the record-level steps of a command started in state `fs`, in order -/
def steps (fs : Fs) : Cmd → List Step
  | .declare p v f tag force =>
    let tag' := declareTag fs p f tag
    let dodeclare := !hasFlavorV (vread fs p v) f || force
    let e1 := if dodeclare then dbDeclare fs p v f tag' else []
    let fs1 := applySteps fs e1
    let e2 := match tag' with
      | none => []
      | some t =>
        -- "delete all old occurrences of this tag … and set it in the proper place"
        let eu := match taggedVersion fs1 t p f with
          | some _ => dbUnassignTag fs1 t p f
          | none => []
        let fs2 := applySteps fs1 eu
        eu ++ dbAssignTag fs2 t p v f
    e1 ++ e2
  | .untag t p f v =>
    match v with
    | some v =>
      if !hasFlavorV (vread fs p v) f then [] else
      if chainVersion (cread fs p t) f = some v then dbUnassignTag fs t p f else []
    | none =>
      match taggedVersion fs t p f with
      | some _ => dbUnassignTag fs t p f
      | none => []
  | .undeclare p v f =>
    if !hasFlavorV (vread fs p v) f then [] else dbUndeclare fs p v f
  | .undeclareAny p f =>
    match soleVersion fs p f with
    | some v => if !hasFlavorV (vread fs p v) f then [] else dbUndeclare fs p v f
    | none => []

/-- the command assigns a tag that is already assigned for this product and flavor — a tag move, or the tag
re-asserted (known finding D11: carried out as remove-then-write) -/
def retag (fs : Fs) : Cmd → Bool
  | .declare p _ f tag _ =>
    match declareTag fs p f tag with
    | some t => (chainVersion (cread fs p t) f).isSome
    | none => false
  | _ => false

/-- the file-system effects of a command started in state `fs`, in order -/
def effects (cfg : Cfg) (fs : Fs) (c : Cmd) : List Eff := expandAll cfg.atomic fs (steps fs c)

/-- the state a kill before effect number `k` leaves behind -/
def crashAt (cfg : Cfg) (fs : Fs) (c : Cmd) (k : Nat) : Fs := applyAll fs ((effects cfg fs c).take k)

/-- the state after the completed command -/
def final (cfg : Cfg) (fs : Fs) (c : Cmd) : Fs := applyAll fs (effects cfg fs c)

/-! ## What a reader sees -/

/-- what a reader makes of one record, up to stamps and block order: the declared flavors of a version file,
the flavor ↦ version assignments of a chain file -/
inductive Seen where
  | absent
  | garbled                          -- empty or truncated file
  | flavors (fs : List Id)           -- sorted
  | assigns (as : List (Id × Id))    -- sorted by flavor
  deriving DecidableEq, Repr

def insertSorted (x : Id) : List Id → List Id
  | [] => [x]
  | y :: r => if x ≤ y then x :: y :: r else y :: insertSorted x r
def sortIds (l : List Id) : List Id := l.foldr insertSorted []

def insertPair (x : Id × Id) : List (Id × Id) → List (Id × Id)
  | [] => [x]
  | y :: r => if x.1 ≤ y.1 then x :: y :: r else y :: insertPair x r
def sortPairs (l : List (Id × Id)) : List (Id × Id) := l.foldr insertPair []

def seenOf : Option FileC → Seen
  | none => .absent
  | some .empty => .garbled
  | some .part => .garbled
  | some (.complete (.ver es)) => .flavors (sortIds (es.map (·.flavor)))
  | some (.complete (.chain es)) => .assigns (sortPairs (es.map fun e => (e.flavor, e.version)))

def read (fs : Fs) (r : RPath) : Seen := seenOf (fs.get (.main r))

/-- the records a command may touch -/
def targets (fs : Fs) : Cmd → List RPath
  | .declare p v f tag _ =>
    [.vfile p v] ++ (match declareTag fs p f tag with
      | some t => [.cfile p t]
      | none => [])
  | .untag t p _ _ => [.cfile p t]
  | .undeclare p v f => [.vfile p v] ++ (findTags fs p v f).map (.cfile p ·)
  | .undeclareAny p f =>
    match soleVersion fs p f with
    | some v => [.vfile p v] ++ (findTags fs p v f).map (.cfile p ·)
    | none => []

/-- every record file in the database is complete (what the reader needs in order not to meet garbage) -/
def recordsComplete (fs : Fs) : Bool :=
  fs.files.all fun (path, c) =>
    match path, c with
    | .main (.vfile _ _), .complete (.ver _) => true
    | .main (.cfile _ _), .complete (.chain _) => true
    | .main _, _ => false
    | _, _ => true

/-- the listing a fresh reader for flavor `f` produces from the files: declared versions with their tags;
`none` when it meets a record it cannot read in full -/
def listing (fs : Fs) (f : Id) : Option (List (Id × Id × List Id)) :=
  if !recordsComplete fs then none else
  some (fs.files.filterMap fun (path, c) =>
    match path, c with
    | .main (.vfile p v), .complete (.ver es) =>
      if hasFlavorV es f then some (p, v, sortIds (findTags fs p v f)) else none
    | _, _ => none)

end EupsModel.FsEff
