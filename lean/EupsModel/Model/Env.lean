import EupsModel.Model.Str
/-! Environments as association lists (first binding wins on lookup; `set` replaces in place or appends). -/
namespace EupsModel

abbrev Env := List (Str × Str)

namespace Env

def get (e : Env) (k : Str) : Option Str :=
  match e with
  | [] => none
  | (k', v) :: rest => if k' = k then some v else get rest k

def unset (e : Env) (k : Str) : Env := e.filter (fun p => p.1 ≠ k)

def set (e : Env) (k v : Str) : Env :=
  match e with
  | [] => [(k, v)]
  | (k', v') :: rest => if k' = k then (k, v) :: unset rest k else (k', v') :: set rest k v

def has (e : Env) (k : Str) : Bool := (get e k).isSome

theorem get_unset_same (e : Env) (k : Str) : get (unset e k) k = none := by
  induction e with
  | nil => simp [unset, get]
  | cons p rest ih =>
    obtain ⟨k', v'⟩ := p
    by_cases h : k' = k
    · simpa [unset, List.filter_cons, h] using ih
    · simpa [unset, List.filter_cons, h, get] using ih

theorem get_unset_other (e : Env) (k k2 : Str) (h : k2 ≠ k) : get (unset e k) k2 = get e k2 := by
  induction e with
  | nil => simp [unset, get]
  | cons p rest ih =>
    obtain ⟨k', v'⟩ := p
    by_cases h1 : k' = k
    · subst h1
      have : k' ≠ k2 := fun e => h e.symm
      simpa [unset, List.filter_cons, get, this] using ih
    · by_cases h2 : k' = k2
      · subst h2
        simp [unset, List.filter_cons, h1, get]
      · simpa [unset, List.filter_cons, h1, get, h2] using ih

theorem get_set_same (e : Env) (k v : Str) : get (set e k v) k = some v := by
  induction e with
  | nil => simp [set, get]
  | cons p rest ih =>
    obtain ⟨k', v'⟩ := p
    by_cases h : k' = k
    · simp [set, h, get]
    · simp [set, h, get, ih]

theorem get_set_other (e : Env) (k v k2 : Str) (h : k2 ≠ k) : get (set e k v) k2 = get e k2 := by
  induction e with
  | nil => simp [set, get, Ne.symm h]
  | cons p rest ih =>
    obtain ⟨k', v'⟩ := p
    by_cases h1 : k' = k
    · subst h1
      simp [set, get, Ne.symm h, get_unset_other rest k' k2 h]
    · by_cases h2 : k' = k2
      · subst h2
        simp [set, h1, get]
      · simp [set, h1, get, h2, ih]

end Env
end EupsModel
