import EupsModel.Model.Str
/-! Model of `expandTableFile` (python/eups/table.py, module-level function) with its inner `subSetup`
and `output`, as called by `eups.app.expandTableFile` / `eups expandtable` (python/eups/cmd.py).

The expander is a pure function of
* the table text (list of lines as Python's file iteration yields them: each ends in `\n` except
  possibly the last, no `\n` elsewhere),
* the flags `force`, `expandVersions`, `addExactBlock`, `recurse`, `toplevelName`,
* the *answers of the environment it consults*, passed in as data (`Answers`):
  `pin`  = `productList.get`                       (the `-p prod=ver` pins),
  `spv`  = `Eups.findSetupProduct(name).version`   (used by `subSetup`),
  `sv`   = `eups.getSetupVersion(name)`            (used by the closure collection; `none` = raises),
  `deps` = `eups.getDependencies(name, version, Eups, setup=True, shouldRaise=True)`.

Not modelled: the warnings printed to `utils.stdwarn` (among them the only use of
`Eups.version_match` and of `versionRegexp`).  Everything else of the function is mirrored
as it stands in the tree with our `fix:` commits (the `--external` line goes to the final block itself;
the closure collection skips the recursion for a `-j` line), remaining defects included; since round 3 the repair of D73: the pattern for setup lines matches unsetup lines as such —
they stay in their setup block, are not rewritten and name no product).  -/
namespace EupsModel.Expand
open EupsModel

/-! ## Python string helpers -/

/-- `s.lstrip()` -/
def lstrip (s : Str) : Str := s.dropWhile Str.isSpace
/-- `s.rstrip()` -/
def rstrip (s : Str) : Str := (s.reverse.dropWhile Str.isSpace).reverse
/-- `s.strip()` -/
def strip (s : Str) : Str := rstrip (lstrip s)

/-- `s.split()` (runs of white space separate, no empty pieces); `cur` is the current piece, reversed. -/
def splitWsGo : Str → Str → List Str
  | [], cur => if cur.isEmpty then [] else [cur.reverse]
  | c :: cs, cur =>
    if Str.isSpace c then (if cur.isEmpty then splitWsGo cs [] else cur.reverse :: splitWsGo cs [])
    else splitWsGo cs (c :: cur)
def splitWs (s : Str) : List Str := splitWsGo s []

/-- `sep.join(l)` -/
def join (sep : Str) : List Str → Str
  | [] => []
  | [x] => x
  | x :: y :: rest => x ++ sep ++ join sep (y :: rest)

/-- `sub in s` -/
def contains (sub : Str) : Str → Bool
  | [] => sub.isEmpty
  | c :: cs => sub.isPrefixOf (c :: cs) || contains sub cs

def startsWith (s p : Str) : Bool := p.isPrefixOf s

/-- truthiness of an optional Python string (`None` and `""` are false) -/
def truthy : Option Str → Bool
  | some (_ :: _) => true
  | _ => false

/-- Python slice `l[a:b]` for non-negative `a`, `b` -/
def slice (l : List α) (a b : Nat) : List α := (l.take b).drop a
/-- `del l[a:b]` -/
def delSlice (l : List α) (a b : Nat) : List α := if a ≤ b then l.take a ++ l.drop b else l

/-! ## literals (code points) -/
def cNl : Nat := 10
def cSp : Nat := 32
def cQuote : Nat := 34   -- "
def cHash : Nat := 35    -- #
def cLpar : Nat := 40
def cRpar : Nat := 41
def cMinus : Nat := 45
def cLt : Nat := 60
def cEq : Nat := 61
def cGt : Nat := 62
def cLbr : Nat := 91     -- [
def cRbr : Nat := 93     -- ]
def cLbrace : Nat := 123 -- {
def cRbrace : Nat := 125 -- }

def sSetupRequired : Str := Str.ofString "setupRequired"
def sSetupOptional : Str := Str.ofString "setupOptional"
def sReqP : Str := Str.ofString "setupRequired("
def sOptP : Str := Str.ofString "setupOptional("
def sEups : Str := Str.ofString "eups"
def sExternal : Str := Str.ofString "--external"
def sLocal : Str := Str.ofString "LOCAL:"
def sGe : Str := Str.ofString ">= "
def sJ : Str := Str.ofString " -j "
def sDashJ : Str := Str.ofString "-j"
def sIfExact : Str := Str.ofString "if (type == exact) {"
def sIfNotExact : Str := Str.ofString "if (type != exact) {"
def sElse : Str := Str.ofString "} else {"
def sClose : Str := Str.ofString "}"

/-! ## the regular expressions of the reader -/

/-- `re.search(r"^\s*(#.*)?$", line)`: blank line or comment line.  (`$` also matches before a final newline.) -/
def isBlankOrComment (line : Str) : Bool :=
  match lstrip line with
  | [] => true
  | c :: rest =>
    if c == cHash then
      match rest.dropWhile (· != cNl) with
      | [] => true
      | [_] => true          -- the final newline
      | _ => false
    else false

/-- `re.sub(r"\s*#.*$", "", line)` for a line whose only newline (if any) is its last character. -/
def stripComment (line : Str) : Str :=
  let (body, nl) := match line.reverse with
    | 10 :: r => (r.reverse, [cNl])
    | _ => (line, [])
  let pre := body.takeWhile (· != cHash)
  if pre.length == body.length then line else rstrip pre ++ nl

/-- index of the last occurrence of `c` -/
def lastIdx (c : Nat) : Str → Option Nat
  | [] => none
  | x :: xs =>
    match lastIdx c xs with
    | some i => some (i + 1)
    | none => if x == c then some 0 else none

/-- `([^"]*)"?\)` anchored at the head of `r`: (group, number of characters consumed), with Python's
backtracking order (longest run of non-quotes first). -/
def bodyMatch (r : Str) : Option (Str × Nat) :=
  let run := r.takeWhile (· != cQuote)
  match r.drop run.length with
  | 34 :: 41 :: _ => some (run, run.length + 2)
  | _ =>
    match lastIdx cRpar run with
    | some k => some (run.take k, k + 1)
    | none => none

structure RexMatch where
  optional : Bool      -- group(1) == "setupOptional"
  args : Str           -- group(2)
  len : Nat            -- len(group(0))
  unsetup : Bool := false   -- group(1) starts with "unsetup"
deriving Repr, DecidableEq

/-- `(setupRequired|setupOptional)\("?([^"]*)"?\)` anchored at the head of `s` -/
def matchSetupAt (s : Str) : Option RexMatch :=
  let go (optional : Bool) (rest : Str) : Option RexMatch :=
    let viaQuote : Option RexMatch := match rest with
      | 34 :: r => (bodyMatch r).map fun (g, n) => ⟨optional, g, 15 + n, false⟩
      | _ => none
    match viaQuote with
    | some m => some m
    | none => (bodyMatch rest).map fun (g, n) => ⟨optional, g, 14 + n, false⟩
  if sReqP.isPrefixOf s then go false (s.drop 14)
  else if sOptP.isPrefixOf s then go true (s.drop 14)
  else none

/-- `((?:un)?setup(?:Required|Optional))\("?([^"]*)"?\)` anchored at the head of `s` (the pattern of the tree with the
repair of D73: an unsetup line is matched as such, `group(1)` = `unsetupRequired` / `unsetupOptional`, which is never equal
to `"setupOptional"`) -/
def matchRexAt (s : Str) : Option RexMatch :=
  match s with
  | 117 :: 110 :: rest => (matchSetupAt rest).map fun m => { m with optional := false, len := m.len + 2, unsetup := true }
  | _ => matchSetupAt s

/-- `re.search(rex, s)`: the leftmost match -/
def searchRex : Str → Option RexMatch
  | [] => none
  | c :: cs =>
    match matchRexAt (c :: cs) with
    | some m => some m
    | none => searchRex cs

/-- `re.search(r"if\s*\(type\s*==\s*exact\)\s*{", s)` -/
def preExactAt (s : Str) : Bool :=
  let lit (l : Str) (s : Str) : Option Str := if l.isPrefixOf s then some (s.drop l.length) else none
  match lit (Str.ofString "if") s with
  | none => false
  | some s =>
  match lit (Str.ofString "(type") (lstrip s) with
  | none => false
  | some s =>
  match lit (Str.ofString "==") (lstrip s) with
  | none => false
  | some s =>
  match lit (Str.ofString "exact)") (lstrip s) with
  | none => false
  | some s => (lit [cLbrace] (lstrip s)).isSome

def preExactRe : Str → Bool
  | [] => false
  | c :: cs => preExactAt (c :: cs) || preExactRe cs

/-- `re.search(r"{\s*$", s)` -/
def endsWithOpenBrace (s : Str) : Bool :=
  match (rstrip s).reverse with
  | 123 :: _ => true
  | _ => false

/-- `re.search(r"^\s*}\s*$", s)` -/
def isCloseBrace (s : Str) : Bool := strip s == sClose

/-! ## what the expander asks its environment -/

/-- The version `Eups.findSetupVersion` (hence `getSetupVersion`, `findSetupProduct`) reports for a record
`SETUP_<P> = "<p> <recorded> -f <flavor> -Z <stack>"`: the recorded version name — unless that name is a recognised tag name
and *no version of that name is declared* for the product in the record's stack, in which case the name is taken for the tag
and resolved (`tagged`; kept when the tag is not assigned).  `LOCAL:` versions are reported as they are. -/
def setupVersion (recognised : List Str) (declared : Str → Bool) (tagged : Str → Option Str) (recorded : Str) : Str :=
  if startsWith recorded sLocal then recorded
  else if recognised.contains recorded && !declared recorded then (tagged recorded).getD recorded
  else recorded

structure Dep where
  name : Str
  version : Str
  optional : Bool
deriving Repr, DecidableEq

inductive DepsAnswer
  | unknown                     -- the harness did not supply this answer (never the case in a valid request)
  | raised                      -- `getDependencies(..., shouldRaise=True)` raised
  | ok (l : List Dep)
deriving Repr

structure Answers where
  pin : Str → Option Str
  spv : Str → Option Str
  sv : Str → Option Str
  deps : Str → Str → DepsAnswer

structure Opts where
  force : Bool := false
  expandVersions : Bool := true
  addExactBlock : Bool := true
  recurse : Bool := true
  toplevel : Option Str := none

inductive Err
  | flagNeedsArg     -- RuntimeError("Flag %s expected an argument")
  | badRelop         -- EupsException from isLegalRelativeVersion
  | notSetup         -- RuntimeError("Expanding table for ...: ... is not setup")
  | depsRaised       -- the exception of getDependencies re-raised
  | indexError       -- `setupBlocks[i - 1] = ...` past the end after `i += 3`
  | missingAnswer    -- the request did not carry an answer the model needed
deriving Repr, DecidableEq

/-! ## `subSetup` -/

def argFlagChars : Str := Str.ofString "fgHmMqrUz"
def bareFlagChars : Str := Str.ofString "cdejknoPsvtV0123"

/-- the two `re.search` calls that split `[expr]` tokens into words -/
def splitBracket (a : Str) : List Str :=
  let (pre, a1) : List Str × Str := match a with
    | 91 :: r => ([[cLbr]], r)
    | _ => ([], a)
  match a1.reverse with
  | 93 :: r => pre ++ [r.reverse, [cRbr]]
  | _ => pre ++ [a1]

/-- the `while True` loop over the arguments: returns (flags, words) -/
def scanArgs : List Str → List Str → List Str → Except Err (List Str × List Str)
  | [], flags, words => pure (flags, words)
  | a :: rest, flags, words =>
    match a with
    | 45 :: c :: _ =>
      if argFlagChars.contains c then
        match rest with
        | [] => throw .flagNeedsArg
        | b :: rest' => scanArgs rest' (flags ++ [a ++ [cSp] ++ b]) words
      else if bareFlagChars.contains c then scanArgs rest (flags ++ [a]) words
      else if sExternal.isPrefixOf a then scanArgs rest (flags ++ [a]) words
      else scanArgs rest flags words          -- "-[BO]..." and unknown flags are dropped with a message
    | 45 :: [] => scanArgs rest flags words   -- "-" alone: unknown flag
    | _ => scanArgs rest flags (words ++ splitBracket a)

/-- `_relop_re.search(v)`: contains `<`, `>` or `==` -/
def hasRelop (s : Str) : Bool := s.any (fun c => c == cLt || c == cGt) || contains [cEq, cEq] s

/-- `_bad_relop_re.match(v)`: `^\s*=\s+\S+` -/
def badRelop (s : Str) : Bool :=
  match lstrip s with
  | 61 :: r =>
    match r with
    | c :: _ => Str.isSpace c && !(lstrip r).isEmpty
    | [] => false
  | _ => false

/-- `Eups.isLegalRelativeVersion` for a non-`None` argument -/
def isLegalRelativeVersion (v : Str) : Except Err Bool :=
  if hasRelop v then pure true else if badRelop v then throw .badRelop else pure false

/-- What `subSetup` has understood of the arguments when it reaches `productList.get` (l.1336). -/
structure Parsed where
  name : Str
  flags : List Str
  version : Option Str      -- an explicit (non-relational) version word
  logical : Option Str      -- the `[expr]` of the line, or its relational words
deriving Repr, DecidableEq

inductive ParseResult
  | passthrough             -- `return original` (the `eups` pseudo-product, or no product word)
  | parsed (p : Parsed)
deriving Repr, DecidableEq

def parseArgs (argStr : Str) : Except Err ParseResult := do
  let args := splitWs argStr
  if args.head? == some sEups then return .passthrough
  let (flags, words) ← scanArgs args [] []
  match words with
  | [] => return .passthrough
  | name :: words =>
    let (version, words) : Option Str × List Str := match words with
      | w :: ws => if w != [cLbr] then (some w, ws) else (none, words)
      | [] => (none, [])
    let (logical, words) : Option Str × List Str :=
      if words.contains [cLbr] && words.contains [cRbr] then
        let left := words.idxOf [cLbr]
        let right := words.idxOf [cRbr]
        (some (join [cSp] (slice words (left + 1) right)), delSlice words left (right + 1))
      else (none, words)
    match version with
    | some (c :: cs) =>
      if ← isLegalRelativeVersion (c :: cs) then
        return .parsed ⟨name, flags, none, some (join [cSp] ((c :: cs) :: words))⟩
      else return .parsed ⟨name, flags, version, logical⟩
    | _ => return .parsed ⟨name, flags, version, logical⟩

/-- The rewritten command: `cmd(name flags.. [version] [[logical]])`. -/
structure Rewrite where
  optional : Bool
  name : Str
  flags : List Str
  version : Option Str
  logical : Option Str      -- present iff `[logical]` is written
deriving Repr, DecidableEq

/-- lines 1336-1365: choose the version and the logical expression; `none` = `return original` -/
def decideRewrite (A : Answers) (o : Opts) (optional : Bool) (p : Parsed) : Option Rewrite :=
  let version := match A.pin p.name with
    | some v => some v
    | none => p.version
  let (product, version) : Option Str × Option Str :=
    if truthy version then (none, version)
    else match A.spv p.name with
      | some v => (some v, some v)
      | none => (none, version)
  if !truthy version then none
  else
    let logical : Option Str :=
      if truthy p.logical then p.logical
      else match product, version with
        | some _, some v => if !startsWith v sLocal then some (sGe ++ v) else p.logical
        | _, _ => p.logical
    some { optional := optional, name := p.name, flags := p.flags, version := version,
           logical := if o.expandVersions && truthy logical then logical else none }

def cmdName (optional : Bool) : Str := if optional then sSetupOptional else sSetupRequired

def renderRewrite (r : Rewrite) : Str :=
  let args := [r.name] ++ r.flags ++ (match r.version with | some v => [v] | none => [])
    ++ (match r.logical with | some l => [[cLbr] ++ l ++ [cRbr]] | none => [])
  cmdName r.optional ++ [cLpar] ++ join [cSp] args ++ [cRpar]

/-- `subSetup(match)` -/
def subSetup (A : Answers) (o : Opts) (optional : Bool) (argStr original : Str) : Except Err Str := do
  match ← parseArgs argStr with
  | .passthrough => pure original
  | .parsed p =>
    match decideRewrite A o optional p with
    | none => pure original
    | some r => pure (renderRewrite r)

/-- `re.sub(rex, subSetup, line)`; `skip` counts characters of the current match still to be dropped. -/
def subGo (A : Answers) (o : Opts) : Nat → Str → Except Err Str
  | _, [] => pure []
  | skip + 1, _ :: cs => subGo A o skip cs
  | 0, c :: cs =>
    match matchRexAt (c :: cs) with
    | some m => do
      let r ← if m.unsetup then pure ((c :: cs).take m.len) else subSetup A o m.optional m.args ((c :: cs).take m.len)
      let rest ← subGo A o (m.len - 1) cs
      pure (r ++ rest)
    | none => do
      let rest ← subGo A o 0 cs
      pure (c :: rest)

def subAll (A : Answers) (o : Opts) (line : Str) : Except Err Str := subGo A o 0 line

/-! ## the reader: blocks of contiguous setup / non-setup lines -/

inductive LKind | blank | setup | other
deriving Repr, DecidableEq

/-- a line of a block; `kind` is bookkeeping for the theorems and does not influence the output -/
structure BLine where
  kind : LKind
  text : Str
deriving Repr, DecidableEq

structure Block where
  isSetup : Bool
  lines : List BLine
deriving Repr, DecidableEq

structure Prod where
  name : Str
  optional : Bool
  external : Bool
  line : Str                 -- the (rewritten) line the product was found on
  noRecursion : Bool         -- `"-j" in args.split()`
deriving Repr, DecidableEq

structure RState where
  prev : List Block := []                 -- setupBlocks[:-1]
  cur : Block := ⟨false, []⟩              -- setupBlocks[-1]
  lastSetup : Option Nat := none          -- lastSetupBlock
  products : List Prod := []
  final : List Str := []                  -- finalBlock[1]

def RState.blocks (st : RState) : List Block := st.prev ++ [st.cur]

def pushLine (st : RState) (k : LKind) (t : Str) : RState :=
  { st with cur := { st.cur with lines := st.cur.lines ++ [⟨k, t⟩] } }

/-- `args.split(" ")[0]` -/
def firstField (s : Str) : Str := s.takeWhile (· != cSp)

/-- What one iteration of `for line in ifd` finds on its line. -/
inductive Classified
  | blank (raw : Str)                     -- blank or comment line: kept as it is
  | eups (text : Str)                     -- a setup line for the `eups` pseudo-product: goes to the final block
  | setup (text : Str) (prod : Option Prod)   -- a line matching `rex` after the substitutions
  | other (text : Str)                    -- anything else (comment stripped)
deriving Repr, DecidableEq

/-- the line-local part of an iteration: classify, strip the comment, substitute -/
def classify (A : Answers) (o : Opts) (raw : Str) : Except Err Classified := do
  if isBlankOrComment raw then return .blank raw
  let line ← subAll A o (stripComment raw)
  match searchRex line with
  | some m =>
    if !m.args.isEmpty && !m.unsetup then
      let name := firstField m.args
      if name == sEups then return .eups line
      else return .setup line (some ⟨name, m.optional, contains sExternal line, line, (splitWs m.args).contains sDashJ⟩)
    else return .setup line none
  | none => return .other line

/-- open a new setup block unless the current one is one -/
def openSetup (st : RState) : RState :=
  if !st.cur.isSetup then
    { st with prev := st.prev ++ [st.cur], cur := ⟨true, []⟩, lastSetup := some (st.prev.length + 1) }
  else st

/-- open a new non-setup block if the current one is a setup block -/
def openOther (st : RState) : RState :=
  if st.cur.isSetup then { st with prev := st.prev ++ [st.cur], cur := ⟨false, []⟩ } else st

/-- the bookkeeping part of an iteration -/
def step (st : RState) : Classified → RState
  | .blank raw => pushLine st .blank raw
  | .eups t => let st := openSetup st; { st with final := st.final ++ [t] }
  | .setup t none => pushLine (openSetup st) .setup t
  | .setup t (some p) => let st := openSetup st; pushLine { st with products := st.products ++ [p] } .setup t
  | .other t => pushLine (openOther st) .other t

/-- one iteration of `for line in ifd` -/
def readLine (A : Answers) (o : Opts) (st : RState) (raw : Str) : Except Err RState := do
  let c ← classify A o raw
  pure (step st c)

def readAll (A : Answers) (o : Opts) (lines : List Str) : Except Err RState :=
  lines.foldlM (readLine A o) {}

/-! ## the closure collection -/

structure CState where
  desired : List (Str × Str) := []        -- desiredProducts
  optional : List (Str × Str) := []       -- keys of optionalProducts
  notFound : List Str := []               -- keys of notFound
  final : List Str := []                  -- finalBlock[1]

def addDesired (c : CState) (d : Dep) : CState :=
  if c.desired.contains (d.name, d.version) then c
  else { c with desired := c.desired ++ [(d.name, d.version)],
                optional := if d.optional then (d.name, d.version) :: c.optional else c.optional }

/-- the version the collection assumes for a top-level product: the pin, else `getSetupVersion` -/
def topVersion (A : Answers) (name : Str) : Option Str :=
  match A.pin name with
  | some v => some v
  | none => A.sv name

def collectStep (A : Answers) (o : Opts) (c : CState) (p : Prod) : Except Err CState :=
  if o.toplevel == some p.name then pure c
  else if p.external then pure { c with final := c.final ++ [p.line] }
  else
    match topVersion A p.name with
    | none =>
      if !p.optional && !o.force then throw .notSetup
      else pure { c with notFound := p.name :: c.notFound }
    | some v =>
      if o.recurse && !p.noRecursion then
        match A.deps p.name v with
        | .unknown => throw .missingAnswer
        | .raised => if !p.optional && !o.force then throw .depsRaised else pure c
        | .ok l => pure ((⟨p.name, v, p.optional⟩ :: l).foldl addDesired c)
      else pure (addDesired c ⟨p.name, v, p.optional⟩)

def collect (A : Answers) (o : Opts) (st : RState) : Except Err CState :=
  st.products.foldlM (collectStep A o) { final := st.final }

/-! ## the emission -/

/-- One call of `output(ofd, indentLevel, line)`, tagged with where the line comes from. -/
inductive Item
  | orig (indent : Int) (kind : LKind) (text : Str)    -- a line of the input (as stored in its block)
  | gen (indent : Int) (text : Str)                     -- `if (type == exact) {`, `} else {`, `if (type != exact) {`, `}`
  | pin (indent : Int) (optional : Bool) (name version : Str)   -- `setupX(%-15s -j %s)`
  | fin (text : Str)                                    -- a line of the final block
deriving Repr, DecidableEq

def isPreExact (b : Block) : Bool :=
  !b.isSetup && (match b.lines with
    | [l] => preExactRe l.text
    | _ => false)

/-- The `while i < len(setupBlocks)` loop as far as the index is concerned: the (index, block) pairs that are
emitted; a pre-existing exact block skips three blocks (and raises `IndexError` when fewer than two follow). -/
def visit : Nat → List Block → Except Err (List (Nat × Block))
  | _, [] => pure []
  | i, b :: rest =>
    if isPreExact b then
      match rest with
      | _ :: _ :: rest' => visit (i + 3) rest'
      | _ => throw .indexError
    else do
      let v ← visit (i + 1) rest
      pure ((i, b) :: v)

/-- a non-setup block: brace cosmetics on its first line, then every line at the current indentation -/
def emitPlain (ind : Int) (lines : List BLine) : List Item × Int :=
  match lines with
  | [] => ([], ind)
  | l :: rest =>
    if endsWithOpenBrace l.text then
      (.orig ind l.kind l.text :: rest.map (fun x => .orig (ind + 1) x.kind x.text), ind + 1)
    else if isCloseBrace l.text then
      (.orig (ind - 1) l.kind l.text :: rest.map (fun x => .orig (ind - 1) x.kind x.text), ind - 1)
    else ((l :: rest).map (fun x => .orig ind x.kind x.text), ind)

/-- the `for j in range(len(block))` loop of a setup block -/
def emitSetupLines (ind : Int) : List BLine → List Item
  | [] => []
  | [l] =>
    let t := strip l.text
    if contains sExternal t then [] else if t.isEmpty && ind > 0 then [] else [.orig ind l.kind t]
  | l :: l2 :: rest =>
    let t := strip l.text
    (if contains sExternal t then [] else [.orig ind l.kind t]) ++ emitSetupLines ind (l2 :: rest)

def pinItems (ind : Int) (c : CState) : List Item :=
  c.desired.map fun (n, v) => .pin ind (c.optional.contains (n, v) || c.notFound.contains n) n v

def emitSetup (o : Opts) (isLast : Bool) (c : CState) (ind : Int) (lines : List BLine) : List Item :=
  if o.addExactBlock then
    (if isLast then
      [.gen ind sIfExact] ++ pinItems (ind + 1) c ++ [.gen ind sElse]
    else [.gen ind sIfNotExact])
    ++ emitSetupLines (ind + 1) lines ++ [.gen ind sClose]
  else emitSetupLines ind lines

def emitVisited (o : Opts) (lastSetup : Option Nat) (c : CState) : Int → List (Nat × Block) → List Item
  | _, [] => []
  | ind, (i, b) :: rest =>
    if b.isSetup then
      emitSetup o (lastSetup == some i) c ind b.lines ++ emitVisited o lastSetup c ind rest
    else
      let (items, ind') := emitPlain ind b.lines
      items ++ emitVisited o lastSetup c ind' rest

/-- the whole of `expandTableFile`: the sequence of `output` calls -/
def expandItems (A : Answers) (o : Opts) (lines : List Str) : Except Err (List Item) := do
  let st ← readAll A o lines
  let c ← collect A o st
  let vis ← visit 0 st.blocks
  pure (emitVisited o st.lastSetup c 0 vis ++ c.final.map .fin)

/-! ## rendering -/

def indentStr (ind : Int) : Str := List.replicate (3 * ind.toNat) cSp

/-- `"%-15s" % n` -/
def pad15 (n : Str) : Str := n ++ List.replicate (15 - n.length) cSp

def pinText (optional : Bool) (n v : Str) : Str :=
  cmdName optional ++ [cLpar] ++ pad15 n ++ sJ ++ v ++ [cRpar]

/-- the text `output` prints (without the newline `print` adds) -/
def renderItem : Item → Str
  | .orig ind _ t => indentStr ind ++ strip t
  | .gen ind t => indentStr ind ++ strip t
  | .pin ind opt n v => indentStr ind ++ strip (pinText opt n v)
  | .fin t => strip t

def expandText (A : Answers) (o : Opts) (lines : List Str) : Except Err (List Str) :=
  (expandItems A o lines).map (·.map renderItem)


/-! ## projections of classified lines (used by the statements about the reader) -/

/-- the line a classified input line contributes to the blocks -/
def Classified.bline : Classified → Option BLine
  | .blank raw => some ⟨.blank, raw⟩
  | .eups _ => none
  | .setup t _ => some ⟨.setup, t⟩
  | .other t => some ⟨.other, t⟩

def Classified.prod : Classified → Option Prod
  | .setup _ p => p
  | _ => none

def Classified.finalLine : Classified → Option Str
  | .eups t => some t
  | _ => none

def Classified.otherText : Classified → Option Str
  | .other t => some t
  | _ => none

def Classified.setupText : Classified → Option Str
  | .setup t _ => some t
  | _ => none

/-- no line of the table, as the reader stores it, matches `if (type == exact) {` -/
def noExactLine (A : Answers) (o : Opts) (lines : List Str) : Bool :=
  match lines.mapM (classify A o) with
  | .ok cs => cs.all fun c => match c.bline with
    | some l => !preExactRe l.text
    | none => true
  | .error _ => true

/-! ## answers given as finite tables (what the driver receives; also used for concrete instances) -/

structure AnswerData where
  pins : List (Str × Str) := []
  spv : List (Str × Str) := []
  sv : List (Str × Str) := []
  deps : List ((Str × Str) × Option (List Dep)) := []     -- `none` = the call raised

def lookup (l : List (Str × Str)) (k : Str) : Option Str :=
  match l with
  | [] => none
  | (k', v) :: rest => if k' == k then some v else lookup rest k

def depsLookup (l : List ((Str × Str) × Option (List Dep))) (n v : Str) : DepsAnswer :=
  match l with
  | [] => .unknown
  | ((n', v'), r) :: rest =>
    if n' == n && v' == v then (match r with | none => .raised | some d => .ok d) else depsLookup rest n v

def AnswerData.toAnswers (d : AnswerData) : Answers :=
  { pin := lookup d.pins, spv := lookup d.spv, sv := lookup d.sv, deps := depsLookup d.deps }

/-- decidable form of the hypothesis `DepsSound` -/
def AnswerData.depsSound (d : AnswerData) : Bool :=
  d.deps.all fun e => match e.2 with
    | some l => l.all fun x => lookup d.sv x.name == some x.version
    | none => true

/-- decidable form of "the `-p` pins agree with what is set up" -/
def AnswerData.pinsAgree (d : AnswerData) : Bool :=
  d.pins.all fun e => lookup d.sv e.1 == some e.2

/-- what one product of the table contributes to `desiredProducts` (the list `NVOL` of the collection loop) -/
def contrib (A : Answers) (o : Opts) (p : Prod) : List Dep :=
  if o.toplevel == some p.name then []
  else if p.external then []
  else match topVersion A p.name with
    | none => []
    | some v =>
      if o.recurse && !p.noRecursion then
        match A.deps p.name v with
        | .ok l => ⟨p.name, v, p.optional⟩ :: l
        | _ => []
      else [⟨p.name, v, p.optional⟩]

/-- decidable form of the hypothesis `Covered`: every set-up product other than the top-level one is contributed by
a product of the table -/
def AnswerData.covered (d : AnswerData) (o : Opts) (lines : List Str) : Bool :=
  match readAll d.toAnswers o lines with
  | .error _ => true
  | .ok st => d.sv.all fun e =>
      o.toplevel == some e.1 || st.products.any fun p => (contrib d.toAnswers o p).any fun x => x.name == e.1

end EupsModel.Expand
