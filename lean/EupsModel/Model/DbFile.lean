import EupsModel.Model.Db
/-! File level of the product database (`python/eups/db/Database.py`, `VersionFile.py`, `ChainFile.py`):
`ups_db/<name>/<version>.version` holds one block per declared flavor (directory stored relative to the stack
when it lies in it, table), `ups_db/<name>/<tag>.chain` maps flavor to tagged version; a file whose last block
goes is removed.  `abs` reads a `FileDb` as the `Spec` of `Model/Db.lean`; `applyF` is what the four `Database`
mutators do to the files.  `Props/C06.lean` proves that `abs` commutes with every effect. -/
namespace EupsModel.DbFile
open EupsModel.Db

/-- PROD_DIR as written by `VersionFile.write(trimDir)`: relative to the stack of the database when the
directory lies in it, absolute (here: root + relative path) otherwise -/
inductive StoredDir
  | rel (r : Str)
  | abs (root : Nat) (r : Str)
  deriving DecidableEq, Repr

/-- one `Group:` block of a version file -/
structure VRec where
  flav : Flav
  dir : StoredDir
  table : Table
  deriving DecidableEq, Repr

/-- one `Group:` block of a chain file -/
structure CRec where
  flav : Flav
  ver : Ver
  deriving DecidableEq, Repr

/-- a record file: its key (what its path says) and its blocks, in file order -/
structure KFile (κ ρ : Type) where
  key : κ
  recs : List ρ
  deriving DecidableEq, Repr

/-- `<stack>/ups_db/<name>/<version>.version` -/
abbrev VFile := KFile (Nat × Name × Ver) VRec
/-- `<stack>/ups_db/<name>/<tag>.chain` -/
abbrev CFile := KFile (Nat × Name × Tag) CRec

structure FileDb where
  vfiles : List VFile
  cfiles : List CFile
  deriving DecidableEq, Repr

def FileDb.empty : FileDb := ⟨[], []⟩

def store (s : Nat) (d : Dir) : StoredDir := if d.root = s then .rel d.rel else .abs d.root d.rel

/-- `Product.resolvePaths`: a relative directory is relative to the stack of the database -/
def resolve (s : Nat) : StoredDir → Dir
  | .rel r => ⟨s, r⟩
  | .abs root r => ⟨root, r⟩

/-! ## reading -/

def declOf (x : VFile) (r : VRec) : Decl := ⟨x.key.1, x.key.2.1, x.key.2.2, r.flav, resolve x.key.1 r.dir, r.table⟩
def tagOf (x : CFile) (r : CRec) : TagRec := ⟨x.key.1, x.key.2.2, x.key.2.1, r.flav, r.ver⟩

/-- what a fresh reader of the files sees (`Database.findProducts` + `getTagAssignments` over every product) -/
def abs (F : FileDb) : Spec :=
  ⟨F.vfiles.flatMap fun x => x.recs.map (declOf x), F.cfiles.flatMap fun x => x.recs.map (tagOf x)⟩

/-- `Database.findProduct(name, version, flavor)` of stack `s` -/
def findProduct (F : FileDb) (s : Nat) (n : Name) (v : Ver) (f : Flav) : Option Decl :=
  match F.vfiles.find? (fun x => decide (x.key = (s, n, v))) with
  | none => none
  | some x => (x.recs.find? (fun r => decide (r.flav = f))).map (declOf x)

/-- `ChainFile(tag).getVersion(flavor)` of stack `s` -/
def taggedVersion (F : FileDb) (s : Nat) (t : Tag) (n : Name) (f : Flav) : Option Ver :=
  match F.cfiles.find? (fun x => decide (x.key = (s, n, t))) with
  | none => none
  | some x => (x.recs.find? (fun r => decide (r.flav = f))).map (·.ver)

/-! ## writing -/

/-- `self.info[flavor] = info` on the dict of a record file: an existing flavor keeps its place, a new one
goes last (`fl` reads the flavor of a block) -/
def setRec {ρ : Type} (fl : ρ → Flav) (recs : List ρ) (r : ρ) : List ρ :=
  if recs.any (fun x => decide (fl x = fl r)) then recs.map (fun x => if fl x = fl r then r else x) else recs ++ [r]

/-- rewrite the blocks of the file with key `k` — created when missing, removed when left without a block
(`VersionFile.write` / `ChainFile.write`) -/
def upd {κ ρ : Type} [DecidableEq κ] (fs : List (KFile κ ρ)) (k : κ) (g : List ρ → List ρ) : List (KFile κ ρ) :=
  let fs1 := if fs.any (fun x => decide (x.key = k)) then fs else fs ++ [⟨k, []⟩]
  (fs1.map fun x => if x.key = k then { x with recs := g x.recs } else x).filter fun x => !x.recs.isEmpty

def hasFlavor (F : FileDb) (s : Nat) (n : Name) (v : Ver) (f : Flav) : Bool :=
  F.vfiles.any fun x => decide (x.key = (s, n, v)) && x.recs.any (fun r => decide (r.flav = f))

/-- the chain file (s, n, t) maps flavor `f` to version `v` (`ChainFile.setVersion` + `write`) -/
def setC (F : FileDb) (s : Nat) (t : Tag) (n : Name) (f : Flav) (v : Ver) : FileDb :=
  ⟨F.vfiles, upd F.cfiles (s, n, t) (fun recs => setRec CRec.flav recs ⟨f, v⟩)⟩

/-- the version file of `d` holds the block of `d` (`VersionFile.addFlavor` + `write`) -/
def setV (F : FileDb) (d : Decl) : FileDb :=
  ⟨upd F.vfiles (d.stack, d.name, d.ver) (fun recs => setRec VRec.flav recs ⟨d.flav, store d.stack d.dir, d.table⟩),
   F.cfiles⟩

/-- `Database.assignTag`: `ProductNotFound` unless the version file declares the flavor -/
def fAssign (F : FileDb) (s : Nat) (t : Tag) (n : Name) (f : Flav) (v : Ver) : FileDb :=
  if hasFlavor F s n v f then setC F s t n f v else F

/-- `Database.unassignTag(tag, name, flavor)` -/
def fUnassign (F : FileDb) (s : Nat) (t : Tag) (n : Name) (f : Flav) : FileDb :=
  ⟨F.vfiles, upd F.cfiles (s, n, t) (fun recs => recs.filter (fun r => !decide (r.flav = f)))⟩

/-- `Database.declare(product)` -/
def fDeclare (F : FileDb) (d : Decl) (tag : Option Tag) : FileDb :=
  match tag with
  | none => setV F d
  | some t => fAssign (setV F d) d.stack t d.name d.flav d.ver

/-- `Database.undeclare(product)`: when the version file declares the flavor, every chain file of the product
that maps the flavor to the version loses that block (`findTags` + `unassignTag`), then the version file
loses the flavor's block -/
def fUndeclare (F : FileDb) (s : Nat) (n : Name) (v : Ver) (f : Flav) : FileDb :=
  if hasFlavor F s n v f then
    ⟨upd F.vfiles (s, n, v) (fun recs => recs.filter (fun r => !decide (r.flav = f))),
     (F.cfiles.map (fun x =>
        if x.key.1 = s ∧ x.key.2.1 = n then
          ⟨x.key, x.recs.filter (fun r => !decide (r.flav = f ∧ r.ver = v))⟩
        else x)).filter (fun x => !x.recs.isEmpty)⟩
  else F

/-- what an effect does to the files -/
def applyF : Eff → FileDb → FileDb
  | .declare d tag, F => fDeclare F d tag
  | .undeclare s n v f, F => fUndeclare F s n v f
  | .assign s t n f v, F => fAssign F s t n f v
  | .unassign s t n f, F => fUnassign F s t n f
  | .rmTree _, F => F
  | .copyExtra _, F => F

end EupsModel.DbFile
