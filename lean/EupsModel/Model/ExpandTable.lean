import EupsModel.Model.Expand
import EupsModel.Spec.C11
/-! What the table reader (`Model/TableParse.lean`) makes of the text `expandTableFile` writes (`Model/Expand.lean`):
executable definitions shared by the theorems of `Lemmas/ExpandTable.lean` / `Props/C17.lean` and by the driver (op `exact`
of handler `c17`), which evaluates the hypotheses `itemOK` / `inertItem` on every real expansion and returns the exact-mode
action list `exactActs` for comparison with the real `Table(expanded).actions(flavor, "exact")`.  Mathlib-free. -/
namespace EupsModel.ExpandTable
open EupsModel EupsModel.Expand EupsModel.C11Spec

/-- the action `Table._read` makes of a pin line `setupRequired(n -j v)` / `setupOptional(n -j v)` -/
def pinAction (opt : Bool) (n v : Str) : TableParse.Action :=
  ⟨TableParse.Cmd.setupRequired.name, [n, sDashJ, v], .optional opt⟩

/-- a product name / version that can be written as a bare table argument: not empty, no white space, comma, quote,
backslash, `#`, `$`, none of the tokeniser's protection characters, not starting with `-` -/
def wordOK (w : Str) : Bool :=
  plainVal w && w.all (fun c => c != 35 && c != 36) && w.head? != some 45

/-- the action (if any) the reader makes of a line between the lines of the block structure -/
def lineRes (pdir : Option Str) (s : Str) : Option TableParse.Action :=
  if (TableParse.strip s).isEmpty then none else
  match TableParse.classify TableParse.repaired pdir (TableParse.strip s) with
  | .ok (.act a) => some a
  | _ => none

/-- a line that is one line, that `_rewrite` drops or passes on unchanged, and that `_read` takes for a command or
skips — not a line of the block structure, not a legacy line, not a command with a wrong number of arguments -/
def lineOK (pdir : Option Str) (s : Str) : Bool :=
  s.all (· != 10) && ((TableParse.strip s).isEmpty ||
    (neutral (TableParse.strip s) &&
      match TableParse.classify TableParse.repaired pdir (TableParse.strip s) with
      | .ok (.act _) => true
      | .ok .skip => true
      | _ => false))

def sExactW : Str := Str.ofString "exact"
/-- `type == exact` / `type != exact` as the expander writes it -/
def condExact (neg : Bool) : CExpr := .atom ⟨Cond.sType, .type, neg, sExactW, none, [], [32], [32]⟩
def layIf : IfLay := ⟨TableParse.sIf, [32], [32], []⟩
def layElse : ElseLay := ⟨[32], TableParse.sElse, [32]⟩
def wrapI (ind : Int) : Wrap := ⟨indentStr ind, []⟩

/-- what the theorem asks of an item of the expansion (decidable; evaluated by the driver on the real expansions): a pin
names a product and a version that can be written as bare arguments; a line of the input (as the expander writes it back)
is a line `lineOK` for the reader, and a blank / comment line stands for nothing -/
def itemOK (pdir : Option Str) : Item → Bool
  | .pin _ _ n v => wordOK n && wordOK v
  | .gen _ _ => true
  | .orig i k t => lineOK pdir (renderItem (.orig i k t)) && (k != .blank || (lineRes pdir (renderItem (.orig i k t))).isNone)
  | .fin t => lineOK pdir (renderItem (.fin t))

def isGen : Item → Bool
  | .gen _ _ => true
  | _ => false

/-- what an item of the expansion contributes to `Table(expanded).actions(flavor, types)` when `exact` is one of the
setup types: a pin its pin action; a line passed through outside the setup blocks (kind `other`, final block) whatever
the reader makes of it; setup lines of the table (they are inside `} else {` / `if (type != exact) {`), blank lines and
the lines of the block structure nothing -/
def exactActs (pdir : Option Str) : Item → List TableParse.Action
  | .pin _ opt n v => [pinAction opt n v]
  | .gen _ _ => []
  | .orig i k t => if k == .other then (lineRes pdir (renderItem (.orig i k t))).toList else []
  | .fin t => (lineRes pdir (renderItem (.fin t))).toList

/-- the text of the expanded table: the lines `output` prints, joined by newlines (`nl`: with the final newline) -/
def expandedText (items : List Item) (nl : Bool) : Str := joinNL (items.map renderItem) ++ (if nl then [10] else [])

/-- an action that sets a product up or takes one away (`setupRequired`/`setupOptional`, `unsetupRequired`/`unsetupOptional`) -/
def isSetupAct (a : TableParse.Action) : Bool :=
  a.cmd == TableParse.Cmd.setupRequired.name || a.cmd == TableParse.Cmd.unsetupRequired.name

/-- `Action.processArgs` on the arguments of a pin action: `[n, "-j", v]` = product `n`, `noRecursion`, version `v` -/
def toPin (a : TableParse.Action) : Option (Bool × Str × Str) :=
  if a.cmd == TableParse.Cmd.setupRequired.name then
    match a.args, a.extra with
    | [n, j, v], .optional opt => if j == sDashJ then some (opt, n, v) else none
    | _, _ => none
  else none

/-- **`Inert`, concretely** (decidable; evaluated by the driver on the real expansions): a line the expander passes through
outside the setup blocks — kind `other` or final block — is not, for the table parser, a command that sets a product up or
takes one away.  (The expander recognises `setupRequired(` / `setupOptional(` spelled exactly so, the parser ignores case
and allows blanks before the parenthesis: observation O2; the `eups` and `--external` lines of the final block are setup
commands too.) -/
def inertItem (pdir : Option Str) : Item → Bool
  | .orig i k t =>
    if k == .other then
      match lineRes pdir (renderItem (.orig i k t)) with
      | some a => !isSetupAct a
      | none => true
    else true
  | .fin t =>
    match lineRes pdir (renderItem (.fin t)) with
    | some a => !isSetupAct a
    | none => true
  | _ => true

end EupsModel.ExpandTable
