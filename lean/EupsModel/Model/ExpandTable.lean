import EupsModel.Model.Expand
import EupsModel.Spec.C11
/-! What the table reader (`Model/TableParse.lean`) makes of the text `expandTableFile` writes (`Model/Expand.lean`):
executable definitions shared by the theorems of `Lemmas/ExpandTable.lean` / `Props/C17.lean` and by the driver (op `exact`
of handler `c17`), which evaluates the hypotheses `itemOK` / `inertItem` on every real expansion and returns the exact-mode
action list `exactActs` for comparison with the real `Table(expanded).actions(flavor, "exact")`.  Mathlib-free. -/
namespace EupsModel.ExpandTable
open EupsModel EupsModel.Expand EupsModel.C11Spec

/-- the action `Table._read` makes of a pin line `setupRequired(n -j v)` / `setupOptional(n -j v)` -/
def pinAction (opt : Bool) (n v : Str) : TableParse.Action :=
  ⟨TableParse.Cmd.setupRequired.name, [n, sDashJ, v], .optional opt⟩

/-- a product name / version that can be written as a bare table argument: not empty, no white space, comma, quote,
backslash, `#`, `$`, none of the tokeniser's protection characters, not starting with `-` -/
def wordOK (w : Str) : Bool :=
  plainVal w && w.all (fun c => c != 35 && c != 36) && w.head? != some 45

/-- the action (if any) the reader makes of a line between the lines of the block structure -/
def lineRes (pdir : Option Str) (s : Str) : Option TableParse.Action :=
  if (TableParse.strip s).isEmpty then none else
  match TableParse.classify TableParse.repaired pdir (TableParse.strip s) with
  | .ok (.act a) => some a
  | _ => none

/-- a line that is one line, that `_rewrite` drops or passes on unchanged, and that `_read` takes for a command or
skips — not a line of the block structure, not a legacy line, not a command with a wrong number of arguments -/
def lineOK (pdir : Option Str) (s : Str) : Bool :=
  s.all (· != 10) && ((TableParse.strip s).isEmpty ||
    (neutral (TableParse.strip s) &&
      match TableParse.classify TableParse.repaired pdir (TableParse.strip s) with
      | .ok (.act _) => true
      | .ok .skip => true
      | _ => false))

def sExactW : Str := Str.ofString "exact"
/-- `type == exact` / `type != exact` as the expander writes it -/
def condExact (neg : Bool) : CExpr := .atom ⟨Cond.sType, .type, neg, sExactW, none, [], [32], [32]⟩
def layIf : IfLay := ⟨TableParse.sIf, [32], [32], []⟩
def layElse : ElseLay := ⟨[32], TableParse.sElse, [32]⟩
def wrapI (ind : Int) : Wrap := ⟨indentStr ind, []⟩

/-- what the theorem asks of an item of the expansion (decidable; evaluated by the driver on the real expansions): a pin
names a product and a version that can be written as bare arguments; a line of the input (as the expander writes it back)
is a line `lineOK` for the reader, and a blank / comment line stands for nothing -/
def itemOK (pdir : Option Str) : Item → Bool
  | .pin _ _ n v => wordOK n && wordOK v
  | .gen _ _ => true
  | .orig i k t => lineOK pdir (renderItem (.orig i k t)) && (k != .blank || (lineRes pdir (renderItem (.orig i k t))).isNone)
  | .fin t => lineOK pdir (renderItem (.fin t))

def isGen : Item → Bool
  | .gen _ _ => true
  | _ => false

/-- what an item of the expansion contributes to `Table(expanded).actions(flavor, types)` when `exact` is one of the
setup types: a pin its pin action; a line passed through outside the setup blocks (kind `other`, final block) whatever
the reader makes of it; setup lines of the table (they are inside `} else {` / `if (type != exact) {`), blank lines and
the lines of the block structure nothing -/
def exactActs (pdir : Option Str) : Item → List TableParse.Action
  | .pin _ opt n v => [pinAction opt n v]
  | .gen _ _ => []
  | .orig i k t => if k == .other then (lineRes pdir (renderItem (.orig i k t))).toList else []
  | .fin t => (lineRes pdir (renderItem (.fin t))).toList

/-- what an item of the expansion contributes to `Table(expanded).actions(flavor, types)` when `exact` is NOT among the setup
types: every line of the input (setup lines as rewritten, lines passed through, final block) whatever the reader makes of it;
pins and the lines of the block structure nothing -/
def inexactActs (pdir : Option Str) : Item → List TableParse.Action
  | .pin _ _ _ _ => []
  | .gen _ _ => []
  | .orig i k t => (lineRes pdir (renderItem (.orig i k t))).toList
  | .fin t => (lineRes pdir (renderItem (.fin t))).toList

/-- the text of the expanded table: the lines `output` prints, joined by newlines (`nl`: with the final newline) -/
def expandedText (items : List Item) (nl : Bool) : Str := joinNL (items.map renderItem) ++ (if nl then [10] else [])

/-- an action that sets a product up or takes one away (`setupRequired`/`setupOptional`, `unsetupRequired`/`unsetupOptional`) -/
def isSetupAct (a : TableParse.Action) : Bool :=
  a.cmd == TableParse.Cmd.setupRequired.name || a.cmd == TableParse.Cmd.unsetupRequired.name

/-- `Action.processArgs` on the arguments of a pin action: `[n, "-j", v]` = product `n`, `noRecursion`, version `v` -/
def toPin (a : TableParse.Action) : Option (Bool × Str × Str) :=
  if a.cmd == TableParse.Cmd.setupRequired.name then
    match a.args, a.extra with
    | [n, j, v], .optional opt => if j == sDashJ then some (opt, n, v) else none
    | _, _ => none
  else none

/-- **`Inert`, concretely** (decidable; evaluated by the driver on the real expansions): a line the expander passes through
outside the setup blocks — kind `other` or final block — is not, for the table parser, a command that sets a product up or
takes one away.  (The expander recognises `setupRequired(` / `setupOptional(` spelled exactly so, the parser ignores case
and allows blanks before the parenthesis: observation O2; the `eups` and `--external` lines of the final block are setup
commands too.) -/
def inertItem (pdir : Option Str) : Item → Bool
  | .orig i k t =>
    if k == .other then
      match lineRes pdir (renderItem (.orig i k t)) with
      | some a => !isSetupAct a
      | none => true
    else true
  | .fin t =>
    match lineRes pdir (renderItem (.fin t)) with
    | some a => !isSetupAct a
    | none => true
  | _ => true

/-! ## non-setup lines with `if` blocks of their own

`groupPlain` reads the rendered lines of a non-setup block (or of the final block) as items of a written table: single
lines and `if (var op word) {` … [`} else if (…) {` …] [`} else {` …] `}` chains with a single comparison as condition.  It
is not proved correct; `plainOK` *checks* its answer (the text of the items it built is the text given, and the items are
well formed), and the theorems take `plainOK` as hypothesis. -/

def isHb (c : Nat) : Bool := c == 32 || c == 9

/-- `(sp1 kw sp2 op sp3 word, trail)` for a condition that is a single comparison -/
def parseAtom (t : Str) : Option (CExpr × Str) :=
  let sp1 := t.takeWhile Str.isSpace
  let r := t.drop sp1.length
  let kw := r.takeWhile Cond.isWordCh
  let r := r.drop kw.length
  let sp2 := r.takeWhile Str.isSpace
  let r := r.drop sp2.length
  match r with
  | o1 :: 61 :: r =>
    if o1 == 61 || o1 == 33 then
      let sp3 := r.takeWhile Str.isSpace
      let r := r.drop sp3.length
      let var : Var := if Str.lower kw == Cond.sFlavor then .flavor else .type
      match r with
      | q :: r' =>
        if q == 39 || q == 34 then
          let w := r'.takeWhile (· != q)
          match r'.drop w.length with
          | _ :: trail => some (.atom ⟨kw, var, o1 == 33, w, some q, sp1, sp2, sp3⟩, trail)
          | [] => none
        else
          let w := r.takeWhile Cond.isTokCh
          some (.atom ⟨kw, var, o1 == 33, w, none, sp1, sp2, sp3⟩, r.drop w.length)
      | [] => none
    else none
  | _ => none

/-- `kw a ( cond trail ) b { c` → layout, condition, trail -/
def parseIfCore (core : Str) : Option (IfLay × CExpr × Str) :=
  let kw := core.take 2
  let r := core.drop 2
  let a := r.takeWhile isHb
  match r.drop a.length with
  | 40 :: r =>
    match TableParse.splitLast 41 r with
    | some (condText, suf) =>
      let b := suf.takeWhile isHb
      match suf.drop b.length with
      | 123 :: c =>
        match parseAtom condText with
        | some (cond, trail) => some (⟨kw, a, b, c⟩, cond, trail)
        | none => none
      | _ => none
    | none => none
  | _ => none

inductive PlainLine
  | ifOpen (w : Wrap) (lay : IfLay) (cond : CExpr) (trail : Str)
  | elif (w : Wrap) (e : ElseLay) (lay : IfLay) (cond : CExpr) (trail : Str)
  | elseOpen (w : Wrap) (e : ElseLay) (after : Str)
  | close (w : Wrap) (after : Str)
  | other

def classifyPlain (s : Str) : PlainLine :=
  let indent := s.takeWhile isHb
  let core := s.drop indent.length
  let w : Wrap := ⟨indent, []⟩
  match core with
  | 125 :: r =>
    let s1 := r.takeWhile isHb
    let r1 := r.drop s1.length
    if r1.isEmpty then .close w s1
    else
      let kw := r1.take 4
      let r2 := r1.drop 4
      let s2 := r2.takeWhile isHb
      match r2.drop s2.length with
      | 123 :: after => .elseOpen w ⟨s1, kw, s2⟩ after
      | rest =>
        match parseIfCore rest with
        | some (lay, cond, trail) => .elif w ⟨s1, kw, s2⟩ lay cond trail
        | none => .other
  | _ =>
    match parseIfCore core with
    | some (lay, cond, trail) => .ifOpen w lay cond trail
    | none => .other

structure ChainAcc where
  first : BranchT
  elifs : List (ElseLay × BranchT) := []
  els : Option ElseT := none

def ChainAcc.push (a : ChainAcc) (l : BodyLineT) : ChainAcc :=
  match a.els with
  | some e => { a with els := some { e with body := e.body ++ [l] } }
  | none =>
    match a.elifs.reverse with
    | (E, b) :: restRev => { a with elifs := (((E, { b with body := b.body ++ [l] }) :: restRev).reverse) }
    | [] => { a with first := { a.first with body := a.first.body ++ [l] } }

/-- an item of the expansion as a line between the lines of the block structure -/
def itemLineT (pdir : Option Str) : Item → BodyLineT
  | .pin ind opt n v => ⟨renderItem (.pin ind opt n v), some (pinAction opt n v)⟩
  | .orig ind k t => ⟨renderItem (.orig ind k t), lineRes pdir (renderItem (.orig ind k t))⟩
  | .gen ind t => ⟨renderItem (.gen ind t), lineRes pdir (renderItem (.gen ind t))⟩
  | .fin t => ⟨renderItem (.fin t), lineRes pdir (renderItem (.fin t))⟩

def groupGo (pdir : Option Str) : Option ChainAcc → List Item → List TItemT
  | none, [] => []
  | some a, [] => [.chain a.first a.elifs a.els ⟨[], []⟩ [35]]      -- unterminated: an item `plainOK` rejects
  | acc, it :: rest =>
    match acc, classifyPlain (renderItem it) with
    | none, .ifOpen w lay cond trail => groupGo pdir (some { first := ⟨w, lay, cond, trail, []⟩ }) rest
    | none, _ => .line (itemLineT pdir it) :: groupGo pdir none rest
    | some a, .elif w e lay cond trail =>
      if a.els.isSome then .line (itemLineT pdir it) :: groupGo pdir (some a) rest
      else groupGo pdir (some { a with elifs := a.elifs ++ [(e, ⟨w, lay, cond, trail, []⟩)] }) rest
    | some a, .elseOpen w e after =>
      if a.els.isSome then .line (itemLineT pdir it) :: groupGo pdir (some a) rest
      else groupGo pdir (some { a with els := some ⟨w, e, after, []⟩ }) rest
    | some a, .close w after => .chain a.first a.elifs a.els w after :: groupGo pdir none rest
    | some a, _ => groupGo pdir (some (a.push (itemLineT pdir it))) rest

def groupPlain (pdir : Option Str) (its : List Item) : List TItemT := groupGo pdir none its

/-- the grouping is right (its text is the text given) and well formed -/
def plainOK (pdir : Option Str) (its : List Item) : Bool :=
  let t := groupPlain pdir its
  (t.flatMap TItemT.rawLines == its.map renderItem) && t.all (TItemT.ok pdir)

/-! ## the expansion as a written table -/

def linesT (pdir : Option Str) (its : List Item) : List TItemT := its.map fun it => .line (itemLineT pdir it)

def chainExact (pdir : Option Str) (ind : Int) (pins body : List Item) : TItemT :=
  .chain ⟨wrapI ind, layIf, condExact false, [], pins.map (itemLineT pdir)⟩ []
    (some ⟨wrapI ind, layElse, [], body.map (itemLineT pdir)⟩) (wrapI ind) []

def chainNot (pdir : Option Str) (ind : Int) (body : List Item) : TItemT :=
  .chain ⟨wrapI ind, layIf, condExact true, [], body.map (itemLineT pdir)⟩ [] none (wrapI ind) []

def setupT (pdir : Option Str) (isLast : Bool) (c : CState) (ind : Int) (lines : List BLine) : TItemT :=
  if isLast then chainExact pdir ind (pinItems (ind + 1) c) (emitSetupLines (ind + 1) lines)
  else chainNot pdir ind (emitSetupLines (ind + 1) lines)

/-- `emitVisited`, block by block, as a written table -/
def visitedT (pdir : Option Str) (lastSetup : Option Nat) (c : CState) : Int → List (Nat × Block) → List TItemT
  | _, [] => []
  | ind, (i, b) :: rest =>
    if b.isSetup then setupT pdir (lastSetup == some i) c ind b.lines :: visitedT pdir lastSetup c ind rest
    else linesT pdir (emitPlain ind b.lines).1 ++ visitedT pdir lastSetup c (emitPlain ind b.lines).2 rest

/-- `visitedT` with the lines of the non-setup blocks grouped by `groupPlain` (blocks of their own allowed) -/
def visitedT2 (pdir : Option Str) (lastSetup : Option Nat) (c : CState) : Int → List (Nat × Block) → List TItemT
  | _, [] => []
  | ind, (i, b) :: rest =>
    if b.isSetup then setupT pdir (lastSetup == some i) c ind b.lines :: visitedT2 pdir lastSetup c ind rest
    else groupPlain pdir (emitPlain ind b.lines).1 ++ visitedT2 pdir lastSetup c (emitPlain ind b.lines).2 rest

/-- what `C17_exact_actions_blocks` asks, block by block: the items of a setup block are `itemOK`, the lines of a non-setup
block are grouped rightly (`plainOK`) -/
def visitedOK2 (pdir : Option Str) (o : Opts) (lastSetup : Option Nat) (c : CState) : Int → List (Nat × Block) → Bool
  | _, [] => true
  | ind, (i, b) :: rest =>
    if b.isSetup then (emitSetup o (lastSetup == some i) c ind b.lines).all (itemOK pdir) && visitedOK2 pdir o lastSetup c ind rest
    else plainOK pdir (emitPlain ind b.lines).1 && visitedOK2 pdir o lastSetup c (emitPlain ind b.lines).2 rest

/-- the three stages of `expandItems` before the emission -/
def expandParts (A : Answers) (o : Opts) (lines : List Str) : Except Err (RState × CState × List (Nat × Block)) := do
  let st ← readAll A o lines
  let c ← collect A o st
  let vis ← visit 0 st.blocks
  pure (st, c, vis)

/-- the written table the expansion stands for -/
def tableOf (pdir : Option Str) (p : RState × CState × List (Nat × Block)) : List TItemT :=
  visitedT2 pdir p.1.lastSetup p.2.1 0 p.2.2 ++ groupPlain pdir (p.2.1.final.map Item.fin)

/-- the decidable scope condition of `C17_exact_actions_blocks` (evaluated by the driver on every real expansion) -/
def expandOK2 (pdir : Option Str) (A : Answers) (o : Opts) (lines : List Str) : Bool :=
  match expandParts A o lines with
  | .ok p => visitedOK2 pdir o p.1.lastSetup p.2.1 0 p.2.2 && plainOK pdir (p.2.1.final.map Item.fin)
  | .error _ => false

/-- `inertItem` for grouped blocks: for this flavor / these setup types none of the non-setup blocks (nor the final block)
denotes a command that sets a product up or takes one away -/
def visitedInert2 (pdir : Option Str) (env : Cond.Env) : Int → List (Nat × Block) → Bool
  | _, [] => true
  | ind, (_, b) :: rest =>
    if b.isSetup then visitedInert2 pdir env ind rest
    else (denoteTable env (tableAbs (groupPlain pdir (emitPlain ind b.lines).1))).all (fun a => !isSetupAct a)
      && visitedInert2 pdir env (emitPlain ind b.lines).2 rest

def expandInert2 (pdir : Option Str) (env : Cond.Env) (A : Answers) (o : Opts) (lines : List Str) : Bool :=
  match expandParts A o lines with
  | .ok p => visitedInert2 pdir env 0 p.2.2
      && (denoteTable env (tableAbs (groupPlain pdir (p.2.1.final.map Item.fin)))).all (fun a => !isSetupAct a)
  | .error _ => false

end EupsModel.ExpandTable
