import EupsModel.Model.LockR
/-! C09 — the REPAIRED `takeLocks(path)` / `giveLocks(locks)` over SEVERAL stacks (`EUPS_PATH` with more than one
element); the pinned protocol's path model stays in `Model/LockPath.lean`.

One single-directory lock state (`LockR.St`) per stack, all with the same process descriptions, plus a control
state per process saying which path element its `takeLocks` / `giveLocks` is working on.  A transition of the
path model applies `LockR.step` of that process to exactly one component (one or two times) and updates the
control state, so every component of a path run is a run of the single-directory model (`Lemmas/LockPathR.lean`),
and the single-directory theorems apply to each stack.

Control flow mirrored:
* `takeLocks`: for each `d` in `path` the attempt loop of the single-directory model with a fresh `ntry` (a refused
  request withdraws its own lock file on `d` inside that loop); success → next element; exception on element `k` →
  `giveLocks(locks)` for the `k` locks taken so far, then re-raise.  There is no exit without the locks any more
  (the "trepidation" exit of the pinned code), and the exit handler is always registered when `takeLocks` returns.
* command body.
* `giveLocks(locks)` called by the command (`explicit`; cmd.py / setupcmd.py main path) or only by the exit handler
  (the admin / distrib sub-commands discard the list): locks released in order.  The repaired `giveLocks` raises only
  if its own lock file vanishes between `exists` and `remove`, which no schedule of the model produces
  (`LockR.Inv.own`); the branches are kept as the code has them.

Assumed: the elements of a path are distinct (`Eups.setEupsPath` removes duplicates). -/
namespace EupsModel.LockPathR
open EupsModel.Lock (Pid Kind Err)
open EupsModel.LockR

abbrev Dir := Nat

/-- how the command ended, as far as locking is concerned -/
inductive Out
  | done
  | failedAcq (e : Err)     -- takeLocks raised e
  | failedRel (e : Err)     -- giveLocks raised e (the first such exception)
  | killed                  -- SIGINT / SIGTERM in the command body: the handler gave the locks up, the process died
  deriving DecidableEq, Repr, Hashable

inductive Ctl
  | acq (k : Nat)                          -- takeLocks works on path element k
  | unw (j k : Nat) (e : Err)              -- element k raised e: giving up locks[j..k), then re-raise
  | body (n : Nat) (reg : Bool)            -- takeLocks returned n locks; reg: the exit handler is registered
  | rel (j n : Nat) (more : Bool) (o : Out)-- giveLocks works on locks[j] of n; more: if this call raises, the exit
                                           --   handler will carry on with the rest
  | fin (o : Out)
  deriving DecidableEq, Repr, Hashable

structure PSt where
  comp     : Dir → St
  path     : Pid → List Dir
  explicit : Pid → Bool            -- the command calls giveLocks itself (else: released by the exit handler only)
  ctl      : Pid → Ctl

def setComp (S : PSt) (d : Dir) (s : St) : PSt := { S with comp := fun x => if x = d then s else S.comp x }
def setCtl (S : PSt) (i : Pid) (c : Ctl) : PSt := { S with ctl := fun j => if j = i then c else S.ctl j }

/-- what a `giveLocks` call does next on the lock of stack `d`: leave the command body if it has not yet (no call),
then one call -/
def relComp (s : St) (i : Pid) : St :=
  match s.pc i with
  | .hold => step (step s i) i
  | _ => step s i

/-- state in which the call of `relComp` is made -/
def relPre (s : St) (i : Pid) : St :=
  match s.pc i with
  | .hold => step s i
  | _ => s

def firstFailure (o : Out) (e : Err) : Out :=
  match o with
  | .done => .failedRel e
  | o => o

/-- One file-system call (or the end of the command body) of process `i`. -/
def mstep (S : PSt) (i : Pid) : PSt :=
  match S.ctl i with
  | .acq k =>
    match (S.path i)[k]? with
    | none => S
    | some d =>
      let s' := step (S.comp d) i
      let S' := setComp S d s'
      match s'.pc i with
      | .hold => if k + 1 < (S.path i).length then setCtl S' i (.acq (k + 1)) else setCtl S' i (.body (k + 1) true)
      | .failedAcq e => if k = 0 then setCtl S' i (.fin (.failedAcq e)) else setCtl S' i (.unw 0 k e)
      | _ => S'
  | .unw j k e =>
    match (S.path i)[j]? with
    | none => S
    | some d =>
      let s' := relComp (S.comp d) i
      let S' := setComp S d s'
      match s'.pc i with
      | .done => if j + 1 < k then setCtl S' i (.unw (j + 1) k e) else setCtl S' i (.fin (.failedAcq e))
      | .failedRel e' => setCtl S' i (.fin (.failedAcq e'))
      | _ => S'
  | .body n reg =>
    -- the command body ends
    if S.explicit i then
      (if n = 0 then setCtl S i (.fin .done) else setCtl S i (.rel 0 n reg .done))
    else
      (if reg && n != 0 then setCtl S i (.rel 0 n false .done) else setCtl S i (.fin .done))
  | .rel j n more o =>
    match (S.path i)[j]? with
    | none => S
    | some d =>
      let s' := relComp (S.comp d) i
      let S' := setComp S d s'
      match s'.pc i with
      | .done => if j + 1 < n then setCtl S' i (.rel (j + 1) n more o) else setCtl S' i (.fin o)
      | .failedRel e =>
        if more && j + 1 < n then setCtl S' i (.rel (j + 1) n false (firstFailure o e))
        else setCtl S' i (.fin (firstFailure o e))
      | _ => S'
  | .fin _ => S

def mrun (S : PSt) (sched : List Pid) : PSt := sched.foldl mstep S

/-- `takeLocks` of process `i`, working on path element `k`, is about to call `mkdir` there: before its first attempt
on that stack ("between stacks") or in the sleep before the next attempt -/
def atRestAcq (S : PSt) (i : Pid) (k : Nat) : Bool :=
  match (S.path i)[k]? with
  | some d => (match (S.comp d).pc i with | .mkdir _ => true | _ => false)
  | none => false

/-- SIGINT / SIGTERM delivered to process `i`.  The handler is installed before the first lock is taken (D12h), so:
* in its command body: the handler calls `giveLocks(locks)` for all its locks, then the process dies;
* during `takeLocks`, while it is about to call `mkdir` on path element `k` (between stacks, or in the retry wait for a
  contended stack): the handler gives up the `k` locks taken on the earlier elements, then the process dies;
* inside `giveLocks` (the command's own call or the exit handler's), about to start on a lock: the handler's pass over
  the same list releases that lock and the remaining ones, then the process dies (D12i: the lock used to be off the
  list already);
* elsewhere (in the middle of an attempt, or of the release of one lock) not modelled. -/
def mintr (S : PSt) (i : Pid) : PSt :=
  match S.ctl i with
  | .body n _ => if n = 0 then setCtl S i (.fin .killed) else setCtl S i (.rel 0 n false .killed)
  | .acq k =>
    if atRestAcq S i k then (if k = 0 then setCtl S i (.fin .killed) else setCtl S i (.rel 0 k false .killed))
    else S
  | .rel j n _ o =>
    -- inside `giveLocks`, about to start on `locks[j]` (still on the list): the handler's pass releases it and the
    -- rest, then the process dies
    if o == .killed then S      -- the handler is running already (a process is signalled once)
    else
      match (S.path i)[j]? with
      | some d => (match (S.comp d).pc i with | .hold => setCtl S i (.rel j n false .killed) | _ => S)
      | none => S
  | _ => S

inductive MEv
  | call (i : Pid)
  | intr (i : Pid)
  deriving DecidableEq, Repr

def mstepE (S : PSt) : MEv → PSt
  | .call i => mstep S i
  | .intr i => mintr S i

def mrunE (S : PSt) (evs : List MEv) : PSt := evs.foldl mstepE S

@[simp] theorem mrunE_nil (S : PSt) : mrunE S [] = S := rfl
@[simp] theorem mrunE_cons (S : PSt) (e : MEv) (r : List MEv) : mrunE S (e :: r) = mrunE (mstepE S e) r := rfl

def minit (kind : Pid → Kind) (lp : Pid → Option Pid) (tries : Pid → Nat) (path : Pid → List Dir)
    (explicit : Pid → Bool) : PSt :=
  { comp := fun _ => init kind lp tries, path := path, explicit := explicit,
    ctl := fun i => if (path i).isEmpty then .body 0 true else .acq 0 }

@[simp] theorem mrun_nil (S : PSt) : mrun S [] = S := rfl
@[simp] theorem mrun_cons (S : PSt) (i : Pid) (r : List Pid) : mrun S (i :: r) = mrun (mstep S i) r := rfl

/-- The call process `i` is about to make: stack, call, result class (`none`: the end of the body, or nothing). -/
def mobs (S : PSt) (i : Pid) : Option Dir × Call × Res :=
  match S.ctl i with
  | .acq k =>
    match (S.path i)[k]? with
    | none => (none, .none, .nothing)
    | some d => let (c, r) := obs (S.comp d) i; (some d, c, r)
  | .unw j _ _ =>
    match (S.path i)[j]? with
    | none => (none, .none, .nothing)
    | some d => let (c, r) := obs (relPre (S.comp d) i) i; (some d, c, r)
  | .body _ _ => (none, .work, .ok)
  | .rel j _ _ _ =>
    match (S.path i)[j]? with
    | none => (none, .none, .nothing)
    | some d => let (c, r) := obs (relPre (S.comp d) i) i; (some d, c, r)
  | .fin _ => (none, .none, .nothing)

def inBodyM : Ctl → Bool
  | .body _ _ => true
  | _ => false

/-- First sentence of C09 with several stacks: while a process in its command body holds an exclusive lock on stack
`d`, no unrelated process whose path contains `d` is in its command body (with or without a lock on `d`). -/
def MutexM (S : PSt) : Prop :=
  ∀ d p q, p ≠ q → ¬ related (S.comp d) p q → inBodyM (S.ctl p) = true → inBodyM (S.ctl q) = true →
    d ∈ S.path p → d ∈ S.path q → ((S.comp d).pc p = .hold) → (S.comp d).kind p = .ex → False

def finished : Ctl → Bool
  | .fin _ => true
  | _ => false

end EupsModel.LockPathR
