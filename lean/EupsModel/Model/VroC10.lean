import EupsModel.Model.Vro
import EupsModel.Model.VersionCmp
/-! The version order of the C03 model instantiated with C10's model of `hooks.version_cmp` and
`Eups.version_match` (`Model/VersionCmp.lean`).

`Ord.cmp` / `Ord.vmatch` are total, the code is not: `version_cmp` raises on a malformed name,
`version_match` on a malformed name or an expression ending in an operator.  `c10Cmp` / `c10Match`
answer 0 / false there, and `namesOk` is the guard under which no such answer is ever used: the driver
refuses (`unsupported`) a request that fails it instead of answering. -/
namespace EupsModel.Vro
open EupsModel.VersionCmp

/-- `version_cmp(a, b)` (sorting mode, `mustReturnInt=True`) -/
def c10Cmp (a b : Str) : Int :=
  match stdCompare false a b with
  | .ok r => r
  | .error _ => 0

/-- `version_match(v, expr)` is truthy ("cannot be sorted" is caught by the code and means no match) -/
def c10Match (v x : Str) : Bool :=
  match versionMatch v x with
  | .ok b => b
  | .error _ => false

def c10Ord : Ord := ⟨c10Cmp, c10Match⟩

/-- every version name declared in the database is accepted by the comparator, and every relational
expression in play (`xs`) can be evaluated on each of them -/
def namesOk (db : Db) (xs : List Str) : Bool :=
  db.all fun st => st.decls.all fun d =>
    (match lex d.version with | .ok _ => true | .error _ => false) &&
    xs.all fun x => (match versionMatch d.version x with | .ok _ => true | .error _ => false)

/-- the conventional names of C10 (`convName`) -/
def ConvName (s : Str) : Prop := convName s = true

end EupsModel.Vro
