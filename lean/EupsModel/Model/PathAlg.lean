import EupsModel.Model.Env
/-! Model of `Action.execute_envPrepend / execute_envSet / execute_envUnset`,
`Action.expandEnvironmentalVariable`, `Action.pathUnique` (python/eups/table.py) and
`Eups.setEnv(..., interpolateEnv=True)` (python/eups/Eups.py).

Two layers: a generic list layer (`uniq`, `prependL`, `appendL`, `removeL`) and the string layer
the code actually runs (`split`/`join` on a literal delimiter, `${VAR}` handling). -/
namespace EupsModel.PathAlg

/-! ## list layer -/
section ListLayer
variable {α : Type} [DecidableEq α]

/-- `pathUnique`: keep the first occurrence of each element. -/
def uniq : List α → List α
  | [] => []
  | x :: xs => x :: (uniq xs).filter (· != x)

/-- one pass of the `for value in value.split(delim)` loop, forward/prepend -/
def prependL (v : α) (old : List α) : List α := v :: old
/-- append: the element moves to the end (earlier occurrences are dropped first; repair of D8) -/
def appendL (v : α) (old : List α) : List α := old.filter (· != v) ++ [v]
/-- the rule of the pinned tree (before the D8 repair): the value is added at the end and `pathUnique`, keeping
the first occurrence, then drops it again when it was already present -/
def appendLPinned (v : α) (old : List α) : List α := old ++ [v]
def removeL (v : α) (old : List α) : List α := old.filter (· != v)

/-- the order in which the loop visits the pieces of the value: a value that is prepended piece by piece is
visited last piece first, so that its pieces keep their order at the front of the list (repair of D121) -/
def loopVals (append fwd : Bool) (vals : List α) : List α := if fwd && !append then vals.reverse else vals

@[simp] theorem loopVals_single (append fwd : Bool) (v : α) : loopVals append fwd [v] = [v] := by
  cases append <;> cases fwd <;> rfl

/-- the whole loop followed by `pathUnique` -/
def applyL (append fwd : Bool) (vals : List α) (old : List α) : List α :=
  uniq ((loopVals append fwd vals).foldl
    (fun np v => if fwd then (if append then appendL v np else prependL v np) else removeL v np) old)

/-- the loop with the pinned append rule (D8) -/
def applyLPinned (append fwd : Bool) (vals : List α) (old : List α) : List α :=
  uniq (vals.foldl (fun np v => if fwd then (if append then appendLPinned v np else prependL v np) else removeL v np) old)

end ListLayer

/-! ## string layer -/

/-- Python `s.split(d)` for a non-empty literal separator `d`, as a structural recursion:
`skip` counts separator characters still to be skipped, `cur` is the current piece (reversed). -/
def splitGo (d : Str) : Nat → Str → Str → List Str
  | _, cur, [] => [cur.reverse]
  | skip + 1, cur, _ :: xs => splitGo d skip cur xs
  | 0, cur, x :: xs =>
    if d.isPrefixOf (x :: xs) then cur.reverse :: splitGo d (d.length - 1) [] xs
    else splitGo d 0 (x :: cur) xs

/-- `s.split(d)`; Python raises `ValueError` for an empty separator, the callers below never pass one. -/
def split (d s : Str) : List Str := splitGo d 0 [] s

/-- `d.join(l)` -/
def join (d : Str) : List Str → Str
  | [] => []
  | [x] => x
  | x :: y :: rest => x ++ d ++ join d (y :: rest)

def endsWith (s d : Str) : Bool := d.reverse.isPrefixOf s.reverse
def startsWith (s d : Str) : Bool := d.isPrefixOf s

/-! ### `${VAR}` handling -/

def takeWhileNot (stop : Nat → Bool) : Str → Str × Str
  | [] => ([], [])
  | c :: cs => if stop c then ([], c :: cs) else
      let (a, b) := takeWhileNot stop cs
      (c :: a, b)

structure VarMatch where
  optional : Bool
  key : Str
  default : Option Str
  rest : Str          -- what follows the closing brace
deriving Repr, DecidableEq

/-- Does `\$(\?)?{([^-}]*)(?:-([^}]+))?}` match at the head of `s`?  (`$`=36 `?`=63 `{`=123 `}`=125 `-`=45) -/
def varAt (s : Str) : Option VarMatch :=
  match s with
  | 36 :: s1 =>
    let (opt, s2) := match s1 with
      | 63 :: t => (true, t)
      | _ => (false, s1)
    match s2 with
    | 123 :: s3 =>
      let (key, s4) := takeWhileNot (fun c => c == 45 || c == 125) s3
      match s4 with
      | 125 :: rest => some ⟨opt, key, none, rest⟩
      | 45 :: s5 =>
        let (dflt, s6) := takeWhileNot (fun c => c == 125) s5
        match dflt, s6 with
        | _ :: _, 125 :: rest => some ⟨opt, key, some dflt, rest⟩
        | _, _ => none
      | _ => none
    | _ => none
  | _ => none

/-- `re.search(varRE, s)`: the leftmost match. -/
def firstVar : Str → Option VarMatch
  | [] => none
  | c :: cs => match varAt (c :: cs) with
    | some m => some m
    | none => firstVar cs

inductive Expanded where
  | value (s : Str)
  | skip            -- `$?{VAR}` with VAR undefined: the line is ignored
  | error           -- `${VAR}` with VAR undefined and no default: RuntimeError
deriving Repr, DecidableEq

/-- `Action.expandEnvironmentalVariable`: the matches of `varRE`, left to right, are each replaced by
the value of the variable they name (or by their default); the first reference to an undefined
variable without a default decides: `$?{..}` skips the line, `${..}` is an error.
Fuel = length of the string + 1 suffices (each step consumes at least one character). -/
def expandGo (env : Env) : Nat → Str → Expanded
  | 0, s => .value s
  | _ + 1, [] => .value []
  | f + 1, c :: cs =>
    match varAt (c :: cs) with
    | some m =>
      let repl : Option Str := match env.get m.key with
        | some v => some v
        | none => m.default
      match repl with
      | some r => (match expandGo env f m.rest with
        | .value t => .value (r ++ t)
        | o => o)
      | none => if m.optional then .skip else .error
    | none => (match expandGo env f cs with
      | .value t => .value (c :: t)
      | o => o)

def expand (env : Env) (value : Str) : Expanded := expandGo env (value.length + 1) value

/-- `(\${([^}]*)})` at the head of `s` -/
def refAt (s : Str) : Option (Str × Str) :=
  match s with
  | 36 :: 123 :: s1 =>
    let (key, s2) := takeWhileNot (fun c => c == 125) s1
    match s2 with
    | 125 :: rest => some (key, rest)
    | _ => none
  | _ => none

/-- `setEnv(..., interpolateEnv=True)`: `${K}` becomes `environ[K]` when defined, else stays. -/
def interp (env : Env) : Nat → Str → Str
  | 0, s => s
  | _ + 1, [] => []
  | f + 1, c :: cs => match refAt (c :: cs) with
    | some (key, rest) =>
      (match env.get key with
       | some v => v
       | none => 36 :: 123 :: key ++ [125]) ++ interp env f rest
    | none => c :: interp env f cs

def setEnvI (env : Env) (k v : Str) : Env := env.set k (interp env (v.length + 1) v)

/-! ### the actions -/

inductive Outcome where
  | ok (env : Env)
  | runtimeError
deriving Repr, DecidableEq

/-- `execute_envPrepend` (also `envAppend`: `append = true`; unsetup: `fwd = false`).
`delim` is a literal, non-empty string. -/
def envPrepend (append fwd : Bool) (var value delim : Str) (env : Env) : Outcome :=
  let opath := (env.get var).getD []
  let pre := startsWith value delim
  let value := if pre then value.drop delim.length else value
  let app := endsWith value delim
  let value := if app then value.take (value.length - delim.length) else value
  let opath := (split delim opath).filter (fun el => el ≠ [])
  -- the variable reference is expanded in both directions; when unwinding, a reference that can
  -- no longer be expanded is used as written
  let value? : Option Str := match expand env value with
    | .value v => some v
    | .skip => none
    | .error => if fwd then none else some value
  match value?, expand env value with
  | none, .error => .runtimeError
  | none, _ => .ok env
  | some value, _ =>
    -- a reference still in the value (it came in with the value of a variable) is expanded here, in the value;
    -- the elements the list already has are stored as they are (repair of D123)
    let value := interp env (value.length + 1) value
    let npath := applyL append fwd (split delim value) opath
    let s := join delim npath
    let s := if pre && !startsWith s delim then delim ++ s else s
    let s := if app && !endsWith s delim then s ++ delim else s
    .ok (env.set var s)

/-- `execute_envPrepend` of the pinned tree as far as D123 goes: the interpolation of `${K}` ran over the whole new
list when the variable was stored (`setEnv(..., interpolateEnv=True)`), so elements that were already there were
rewritten, and not over the value, so a value with a nested reference was added expanded but removed unexpanded -/
def envPrependPinned (append fwd : Bool) (var value delim : Str) (env : Env) : Outcome :=
  let opath := (env.get var).getD []
  let pre := startsWith value delim
  let value := if pre then value.drop delim.length else value
  let app := endsWith value delim
  let value := if app then value.take (value.length - delim.length) else value
  let opath := (split delim opath).filter (fun el => el ≠ [])
  let value? : Option Str := match expand env value with
    | .value v => some v
    | .skip => none
    | .error => if fwd then none else some value
  match value?, expand env value with
  | none, .error => .runtimeError
  | none, _ => .ok env
  | some value, _ =>
    let npath := applyL append fwd (split delim value) opath
    let s := join delim npath
    let s := if pre && !startsWith s delim then delim ++ s else s
    let s := if app && !endsWith s delim then s ++ delim else s
    .ok (setEnvI env var s)

/-- `execute_envSet` -/
def envSet (fwd : Bool) (var value : Str) (env : Env) : Outcome :=
  if fwd then
    match expand env value with
    | .value [] => .ok env             -- `if not value: return`
    | .value v => .ok (setEnvI env var v)
    | .skip => .ok env
    | .error => .runtimeError
  else .ok (env.unset var)

/-- `execute_envUnset` -/
def envUnset (fwd : Bool) (var : Str) (env : Env) : Outcome :=
  if fwd then .ok (env.unset var) else .ok env

end EupsModel.PathAlg
