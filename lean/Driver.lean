import EupsModel.Drv.All
/-! Line protocol: one JSON request per line on stdin (`{"m": <model>, ...}`), one JSON answer per
line on stdout.  A request the driver does not understand answers `{"bad-op": reason}`; the models
never default. -/
open Lean EupsModel.Drv

def answer (line : String) : String :=
  match Json.parse line with
  | .error e => (Json.mkObj [("bad-op", Json.str s!"parse: {e}")]).compress
  | .ok j =>
    match j.getObjVal? "m" >>= Json.getStr? with
    | .error e => (Json.mkObj [("bad-op", Json.str e)]).compress
    | .ok m =>
      match registry.lookup m with
      | none => (Json.mkObj [("bad-op", Json.str s!"unknown model {m}")]).compress
      | some h =>
        match h j with
        | .ok r => r.compress
        | .error e => (Json.mkObj [("bad-op", Json.str e)]).compress

partial def loop (i o : IO.FS.Stream) : IO Unit := do
  let line ← i.getLine
  if line.isEmpty then return ()
  o.putStrLn (answer line)
  o.flush
  loop i o

def main : IO Unit := do loop (← IO.getStdin) (← IO.getStdout)
