-- Root of the `EupsModel` library: models, lemmas, property theorems and driver handlers.
import EupsModel.Model.Str
import EupsModel.Drv.All
import EupsModel.Model.Env
import EupsModel.Model.PathAlg
import EupsModel.Props.C12
